package main

// Path exploration: depth-first search over decision vectors by re-execution,
// with the path condition mirrored in an incremental solver.

import (
	"fmt"
	"go/token"
	"go/types"
	"math/big"
	"math/rand"
	"os"
	"sort"
	"strings"
	"sync"
	"time"

	"golang.org/x/tools/go/ssa"
)

type decision struct {
	kind    string
	n       int     // number of alternatives (branch: 2; sched/select: n; value: unknown=-1)
	cur     int     // chosen alternative index (branch/sched)
	vals    []int64 // value decisions: values tried so far (last = current)
	forced  bool    // received from another worker: never backtracked
	donated bool    // remaining alternatives were handed to other workers
}

type pathResult struct {
	kind  string // ok | infeasible | violation | panic | deadlock | race | engine | budget | known
	msg   string
	label string
	gor   int
}

type nondetRec struct {
	Name  string
	Kind  string // int, bool, str, bytes, aux, sched...
	Tag   string
	T     *Term
	Lo    int64
	Hi    int64
	Const string // concrete inputs (kept so the native vector stays aligned)
	Doc   *Doc   // arbitrary document (rendered from the model for replay)
}

type Stats struct {
	Paths         int
	PathsOK       int
	Infeasible    int
	Instrs        int64
	Switches      int64
	Forks         map[string]int
	AssertQueries int
	AssertUnsat   int
	AssertSat     int
	FeasQueries   int
	OverflowWraps int
	FreshSplits   int
	MaxPathInstrs int64
	MaxTrail      int
	KnownSeen     map[string]int
}

type EntryOpts struct {
	Name          string
	Property      string
	Tier          string
	Bounds        string
	Cover         []string
	Forbid        map[string]bool // panic, deadlock, race (default all)
	Budget        int64
	Preempt       int
	Race          bool
	MaxGors       int
	Params        map[string]int64 // tier-dependent harness parameters (vParam)
	NoNumStr      bool             // compare decimal strings digit by digit (no numeric shortcut)
	Prepass       bool             // lower-preemption pre-pass of the same entry
	NoConformance bool             // entry depends on model-only nondeterminism the native build cannot mirror
}

type Violation struct {
	Entry    string
	Property string
	Label    string
	Msg      string
	Kind     string
	Inputs   []InputVal
	Trail    []int64
	Observes []string
	Known    string // known-finding id if any
	Sched    []schedEv
	Multi    bool
	Points   []string
}

type InputVal struct {
	Name string `json:"name"`
	Kind string `json:"kind"`
	Tag  string `json:"tag,omitempty"`
	Val  string `json:"val"`
}

type Engine struct {
	prog               *ssa.Program
	harnessPkgs        map[*ssa.Package]bool
	mainPkg            *ssa.Package
	initPkgs           []*ssa.Package
	entry              *ssa.Function
	opts               EntryOpts
	runtimeErrorString types.Type
	externals          map[string]func(fr *frame, args []Value) Value
	intrinsics         map[string]func(fr *frame, args []Value) Value
	redirects          map[string]*ssa.Function
	known              map[string]KnownFinding

	ts     *TermStore
	solver *Solver

	// exploration state
	trail      []*decision
	replayLen  int
	di         int
	live       bool
	stop       bool
	foreignLen int
	assertFrom int
	firstRun   bool
	pool       *pool
	entryIdx   int

	// per-path state
	globals       map[*ssa.Global]*Value
	nondets       []nondetRec
	auxCount      int
	gors          []*Gor
	cur           *Gor
	multi         bool
	preempts      int
	steps         int64
	budget        int64
	depth         int
	opaqueSeq     int
	cells         map[any]*cellMeta
	mutexes       map[*Value]*mutexState
	rws           map[*Value]*rwState
	wgs           map[*Value]*wgState
	atomics       map[*Value]*atomicState
	raceOn        bool
	maxGors       int
	observes      []string
	clock         int64
	fnIDs         map[*ssa.Function]uint64
	symNames      map[string]Value // type key -> symbolic reflect name
	docSeq        int
	extErrs       map[string]Value
	timeLocs      map[string]*Value
	pathCover     map[string]bool
	onceDone      map[*Value]bool
	conds         map[*Value]*condState
	syncMaps      map[*Value]*Map
	schedLog      []schedEv
	concrete      bool // conformance mode: random concrete inputs, no solver
	rng           *rand.Rand
	ctrace        []string // assertion / observation trace of a conformance run
	pointLog      []string
	pointTrace    bool
	siteCache     map[string]bool
	jsonUseNumber bool
	opaqueText    map[*OpaqueStr]*Term // per path: text variables of opaque strings compared as SMT strings
	sitePosCache  map[token.Pos]bool
	pkgDir        string
	decided       map[*Term]bool
	concretized   map[*Term]*big.Int
	usedVars      map[string]bool
	noNumStr      bool
	ptrIDs        map[*Value]uint64
	initSet       map[*ssa.Package]bool
	rtypePtr      types.Type
	stepCtr       int64

	// path end plumbing
	pathEnd  chan struct{}
	result   *pathResult
	resMu    sync.Mutex
	aborting bool
	hostWG   sync.WaitGroup

	// results
	stats        Stats
	covers       map[string]int
	violations   []*Violation
	giveUp       bool // this entry ended inconclusive; its remaining work is dropped
	knownHits    []*Violation
	samples      []map[string]any
	stubsHit     map[string]int
	encodedFns   map[string]int
	inconclusive []string
	start        time.Time
	deadline     time.Time
	verbose      bool
}

// ---- decisions

func (e *Engine) noteFork(kind string) {
	if e.stats.Forks == nil {
		e.stats.Forks = map[string]int{}
	}
	e.stats.Forks[kind]++
}

// replay modes of a decision point
const (
	modeNew     = iota // beyond the recorded trail: create a decision
	modeOwn            // replaying our own prefix: solver already holds it
	modeForeign        // replaying a prefix received from another worker: assert, do not check
	modeAdvance        // the pending decision: take its next alternative
)

func (e *Engine) mode() int {
	if e.di < e.foreignLen && e.firstRun {
		return modeForeign
	}
	if e.di < e.replayLen {
		return modeOwn
	}
	if e.di < len(e.trail) {
		return modeAdvance
	}
	return modeNew
}

func (e *Engine) snapshotPrefix(n int) []*decision {
	out := make([]*decision, 0, n+1)
	for i := 0; i < n; i++ {
		d := e.trail[i]
		c := &decision{kind: d.kind, n: d.n, cur: d.cur, forced: true}
		if d.kind == "value" {
			c.vals = []int64{d.vals[len(d.vals)-1]}
		}
		out = append(out, c)
	}
	return out
}

// decideN makes an unconstrained n-way decision.
func (e *Engine) decideN(kind string, n int) int {
	if n <= 1 {
		return 0
	}
	if e.concrete {
		return e.rng.Intn(n)
	}
	switch e.mode() {
	case modeOwn, modeForeign:
		d := e.trail[e.di]
		if d.kind != kind || d.n != n {
			panic(engineErr("nondeterministic replay: decision %d is %s/%d, recorded %s/%d", e.di, kind, n, d.kind, d.n))
		}
		if e.mode() == modeForeign {
			e.solver.Push()
		}
		e.di++
		return d.cur
	case modeAdvance:
		d := e.trail[e.di]
		if d.kind != kind || d.n != n {
			panic(engineErr("nondeterministic replay (advance): decision %d is %s/%d, recorded %s/%d", e.di, kind, n, d.kind, d.n))
		}
		d.cur++
		if d.cur >= n {
			e.trail = e.trail[:e.di]
			e.infeasiblePath("decision exhausted")
		}
		e.solver.Push()
		e.di++
		e.live = true
		return d.cur
	}
	d := &decision{kind: kind, n: n, cur: 0}
	e.trail = append(e.trail, d)
	if e.pool != nil && e.pool.wantWork(e.di) {
		for j := 1; j < n; j++ {
			pre := e.snapshotPrefix(e.di)
			pre = append(pre, &decision{kind: kind, n: n, cur: j, forced: true})
			e.pool.put(&task{entry: e.entryIdx, prefix: pre})
		}
		d.donated = true
	}
	e.solver.Push()
	e.di++
	e.noteFork(kind)
	return 0
}

// branch decides a possibly symbolic condition.
func (e *Engine) branch(c Value) bool {
	switch c := c.(type) {
	case bool:
		return c
	case *Term:
		if c.Const {
			return c.B
		}
		return e.decideBranch(c)
	}
	panic(engineErr("branch on %T", c))
}

func (e *Engine) decideBranch(c *Term) bool {
	// a condition already decided on this path needs neither solver nor decision
	if v, ok := e.decided[c]; ok {
		return v
	}
	r := e.decideBranch1(c)
	e.decided[c] = r
	e.decided[e.ts.Not(c)] = !r
	return r
}

func (e *Engine) noteVars(t *Term) {
	for name := range t.vars {
		e.usedVars[name] = true
	}
}

// freshBool reports whether c is (the negation of) a Boolean variable that no
// assertion on this path mentions: both outcomes are then feasible.
func (e *Engine) freshBool(c *Term) bool {
	if len(c.vars) != 1 || c.Sort.K != SBool {
		return false
	}
	for name, v := range c.vars {
		if e.usedVars[name] {
			return false
		}
		if c != v && c != e.ts.Not(v) {
			return false
		}
	}
	return true
}

func (e *Engine) decideBranch1(c *Term) bool {
	alts := [2]*Term{c, e.ts.Not(c)}
	fresh := e.freshBool(c)
	e.noteVars(c)
	switch e.mode() {
	case modeOwn, modeForeign:
		d := e.trail[e.di]
		if d.kind != "branch" {
			panic(engineErr("nondeterministic replay: decision %d is branch, recorded %s", e.di, d.kind))
		}
		if e.mode() == modeForeign {
			e.solver.Push()
			e.solver.Assert(alts[d.cur])
		}
		e.di++
		return d.cur == 0
	case modeAdvance:
		d := e.trail[e.di]
		if d.kind != "branch" {
			panic(engineErr("nondeterministic replay (advance): decision %d is branch, recorded %s", e.di, d.kind))
		}
		e.live = true
		if d.cur == 0 && d.n == 2 {
			// the false side was found feasible when the decision was created
			d.cur = 1
			e.solver.Push()
			e.solver.Assert(alts[1])
			e.di++
			return false
		}
		e.trail = e.trail[:e.di]
		e.infeasiblePath("branch exhausted")
	}
	// new decision: probe both sides now, so that an infeasible sibling never
	// costs a re-execution
	var r1, r2 SatResult
	if fresh {
		r1, r2 = Sat, Sat
		e.stats.FreshSplits++
		e.solver.Push()
	} else {
		e.stats.FeasQueries += 2
		e.solver.Push()
		e.solver.Assert(alts[0])
		r1 = e.check("feas")
		e.solver.Pop(1)
		e.solver.Push()
		e.solver.Assert(alts[1])
		r2 = e.check("feas")
	}
	if r1 != Unsat {
		e.solver.Pop(1)
		d := &decision{kind: "branch", n: 2, cur: 0}
		if r2 == Unsat {
			d.n = 1
		}
		e.trail = append(e.trail, d)
		if d.n == 2 && e.pool != nil && e.pool.wantWork(e.di) {
			pre := e.snapshotPrefix(e.di)
			pre = append(pre, &decision{kind: "branch", n: 2, cur: 1, forced: true})
			e.pool.put(&task{entry: e.entryIdx, prefix: pre})
			d.donated = true
		}
		e.solver.Push()
		e.solver.Assert(alts[0])
		e.di++
		if d.n == 2 {
			e.noteFork("branch")
		}
		return true
	}
	// true side infeasible: the false side must hold (pc is satisfiable); level stays pushed
	d := &decision{kind: "branch", n: 1, cur: 1}
	e.trail = append(e.trail, d)
	e.di++
	return false
}

// check runs check-sat; unknown is treated as "maybe" (kept) for feasibility.
func (e *Engine) check(why string) SatResult {
	r := e.solver.Check()
	if r == Unknown {
		e.noteInconclusive("solver unknown on " + why + " query")
	}
	return r
}

func (e *Engine) noteInconclusive(msg string) {
	for _, m := range e.inconclusive {
		if m == msg {
			return
		}
	}
	e.inconclusive = append(e.inconclusive, msg)
}

// feasible asks whether pc ∧ t is satisfiable (no decision recorded).
func (e *Engine) feasible(t *Term) bool {
	if t.Const {
		return t.B
	}
	e.stats.FeasQueries++
	e.solver.Push()
	e.solver.Assert(t)
	r := e.solver.Check()
	e.solver.Pop(1)
	return r != Unsat
}

// concretize picks a concrete value for a symbolic integer by case split.
func (e *Engine) concretizeTerm(t *Term, what string) *big.Int {
	if t.Const {
		return t.I
	}
	if v, ok := e.concretized[t]; ok {
		return v
	}
	r := e.concretizeTerm1(t, what)
	e.concretized[t] = r
	return r
}

func (e *Engine) concretizeTerm1(t *Term, what string) *big.Int {
	mkConst := func(v *big.Int) *Term {
		if t.Sort.K == SBV {
			return e.ts.BV(v.Uint64(), t.Sort.W)
		}
		return e.ts.IntBig(v)
	}
	e.noteVars(t)
	m := e.mode()
	if m == modeOwn || (m == modeForeign && e.trail[e.di].forced) {
		d := e.trail[e.di]
		if d.kind != "value" {
			panic(engineErr("nondeterministic replay: decision %d is value, recorded %s", e.di, d.kind))
		}
		v := big.NewInt(d.vals[len(d.vals)-1])
		if m == modeForeign {
			e.solver.Push()
			e.solver.Assert(e.ts.Eq(t, mkConst(v)))
		}
		e.di++
		return v
	}
	var d *decision
	if m != modeNew {
		d = e.trail[e.di]
		if d.kind != "value" {
			panic(engineErr("nondeterministic replay (advance): decision %d is value, recorded %s", e.di, d.kind))
		}
		e.live = true
	} else {
		d = &decision{kind: "value", n: -1}
		e.trail = append(e.trail, d)
		e.noteFork("value")
	}
	if len(d.vals) >= 64 {
		panic(engineErr("case split of %s exceeds 64 values (%s)", what, t.S))
	}
	e.solver.Push()
	for _, v := range d.vals {
		e.solver.Assert(e.ts.Not(e.ts.Eq(t, mkConst(big.NewInt(v)))))
	}
	e.stats.FeasQueries++
	r := e.check("value")
	if r != Sat {
		e.solver.Pop(1)
		if r == Unknown {
			panic(engineErr("solver unknown while enumerating values of %s", what))
		}
		e.trail = e.trail[:e.di]
		e.infeasiblePath("values exhausted")
	}
	mv := e.solver.GetValues([]*Term{t})[0]
	v := mv.I
	if !v.IsInt64() {
		if t.Sort.K == SBV && v.IsUint64() {
			v = big.NewInt(int64(v.Uint64()))
		} else {
			panic(engineErr("value of %s out of int64 range", what))
		}
	}
	d.vals = append(d.vals, v.Int64())
	// are there further values? (saves a re-execution that would only find none)
	e.solver.Assert(e.ts.Not(e.ts.Eq(t, mkConst(v))))
	e.stats.FeasQueries++
	more := e.solver.Check()
	e.solver.Pop(1)
	if more == Unsat {
		d.n = len(d.vals)
	} else if e.pool != nil && e.pool.wantWork(e.di) {
		// hand the remaining values to another worker
		pre := e.snapshotPrefix(e.di)
		pre = append(pre, &decision{kind: "value", n: -1, vals: append([]int64(nil), d.vals...)})
		e.pool.put(&task{entry: e.entryIdx, prefix: pre, owned: true})
		d.donated = true
	}
	e.solver.Push()
	e.solver.Assert(e.ts.Eq(t, mkConst(v)))
	e.di++
	return v
}

func (e *Engine) concretizeInt(v Value, what string) int64 {
	switch v := v.(type) {
	case int64:
		return v
	case uint64:
		return int64(v)
	case *Term:
		return e.concretizeTerm(v, what).Int64()
	}
	panic(engineErr("concretizeInt(%s) of %T", what, v))
}

func (e *Engine) concretizeUint(v Value, what string) uint64 {
	switch v := v.(type) {
	case int64:
		return uint64(v)
	case uint64:
		return v
	case *Term:
		return uint64(e.concretizeTerm(v, what).Int64())
	}
	panic(engineErr("concretizeUint(%s) of %T", what, v))
}

func (e *Engine) concretizeIndex(v Value) int64 { return e.concretizeInt(v, "index") }

// ---- assumptions, assertions

func (e *Engine) assumeTerm(t *Term) {
	if e.concrete {
		if t.Const && !t.B {
			e.infeasiblePath("assume false")
		}
		return
	}
	e.noteVars(t)
	if !e.live {
		return
	}
	if t.Const {
		if !t.B {
			e.infeasiblePath("assume false")
		}
		return
	}
	e.solver.Assert(t)
}

func (e *Engine) assume(c Value) {
	if e.concrete {
		if !e.branch(c) {
			e.infeasiblePath("assume false")
		}
		return
	}
	switch c := c.(type) {
	case bool:
		if !c {
			e.infeasiblePath("assume false")
		}
	case *Term:
		e.noteVars(c)
		if !e.live {
			return
		}
		e.solver.Assert(c)
		e.stats.FeasQueries++
		if e.check("assume") == Unsat {
			e.infeasiblePath("assume unsat")
		}
	}
}

func (e *Engine) infeasiblePath(why string) {
	e.endPath(pathResult{kind: "infeasible", msg: why})
	panic(pathAbort{why})
}

// assertCond checks cond on the current path. knownID/region implement
// known findings (see DESIGN §2.12).
func (e *Engine) assertCond(cond Value, label string, knownID string, region Value) {
	if e.concrete {
		ok := e.branch(cond)
		if ok {
			e.ctrace = append(e.ctrace, "A:"+label+":ok")
		} else {
			e.ctrace = append(e.ctrace, "A:"+label+":FAIL")
			if _, known := e.known[knownID]; !(known && e.branch(region)) {
				e.endPath(pathResult{kind: "violation", label: label})
				panic(pathAbort{"violation"})
			}
		}
		return
	}
	if ct, ok := cond.(*Term); ok {
		e.noteVars(ct)
	}
	if !e.live {
		return
	}
	if e.firstRun && e.di < e.assertFrom {
		return // already discharged by the worker that handed this prefix over
	}
	_, isKnown := e.known[knownID]
	if knownID != "" && !isKnown {
		knownID = ""
	}
	e.stats.AssertQueries++
	var ct *Term
	switch c := cond.(type) {
	case bool:
		if c {
			e.stats.AssertUnsat++
			return
		}
		ct = e.ts.Bool(false)
	case *Term:
		ct = c
	default:
		panic(engineErr("vAssert on %T", cond))
	}
	neg := e.ts.Not(ct)
	if knownID != "" {
		rt := e.boolTerm(region)
		// new violation outside the recorded region?
		e.solver.Push()
		e.solver.Assert(neg)
		e.solver.Assert(e.ts.Not(rt))
		r := e.check("assert")
		if r == Sat {
			e.recordViolation(label, "assertion failed outside known region "+knownID, "violation", "")
			e.solver.Pop(1)
			e.endPath(pathResult{kind: "violation", label: label})
			panic(pathAbort{"violation"})
		}
		e.solver.Pop(1)
		if r == Unknown {
			e.noteInconclusive("assertion " + label + ": solver unknown")
		}
		// inside the region: known finding
		e.solver.Push()
		e.solver.Assert(neg)
		e.solver.Assert(rt)
		r = e.check("assert")
		if r == Sat {
			e.recordViolation(label, "known finding "+knownID, "known", knownID)
			e.stats.AssertSat++
		} else {
			e.stats.AssertUnsat++
		}
		e.solver.Pop(1)
		// continue on the part of the path where cond holds
		e.assume(ct)
		return
	}
	if ct.Const && !ct.B {
		e.stats.AssertSat++
		e.recordViolation(label, "assertion failed", "violation", "")
		e.endPath(pathResult{kind: "violation", label: label})
		panic(pathAbort{"violation"})
	}
	e.solver.Push()
	e.solver.Assert(neg)
	r := e.check("assert")
	switch r {
	case Sat:
		e.stats.AssertSat++
		e.recordViolation(label, "assertion failed", "violation", "")
		e.solver.Pop(1)
		e.endPath(pathResult{kind: "violation", label: label})
		panic(pathAbort{"violation"})
	case Unknown:
		e.noteInconclusive("assertion " + label + ": solver unknown")
	default:
		e.stats.AssertUnsat++
	}
	e.solver.Pop(1)
	e.solver.Assert(ct)
}

// recordViolation captures the model of the current solver state.
func (e *Engine) recordViolation(label, msg, kind, known string) {
	v := &Violation{Entry: e.opts.Name, Property: e.opts.Property, Label: label, Msg: msg, Kind: kind, Known: known}
	v.Inputs = e.modelInputs()
	v.Trail = e.trailVector()
	v.Observes = append([]string(nil), e.observes...)
	v.Sched = e.replaySchedule(e.schedLog)
	v.Multi = e.multi
	v.Points = append([]string(nil), e.pointLog...)
	if kind == "known" {
		if e.stats.KnownSeen == nil {
			e.stats.KnownSeen = map[string]int{}
		}
		e.stats.KnownSeen[known]++
		for _, k := range e.knownHits {
			if k.Known == known && k.Label == label {
				return
			}
		}
		e.knownHits = append(e.knownHits, v)
		return
	}
	e.violations = append(e.violations, v)
}

// modelInputs reads the current model for all input variables of this path.
func (e *Engine) modelInputs() []InputVal {
	var ts []*Term
	var recs []nondetRec
	for _, n := range e.nondets {
		if n.T != nil {
			ts = append(ts, n.T)
		}
		recs = append(recs, n)
	}
	out := make([]InputVal, 0, len(recs))
	var vals []ModelValue
	if len(ts) > 0 {
		// make sure a model exists
		if e.solver.Check() != Sat {
			return out
		}
		vals = e.solver.GetValues(ts)
	}
	k := 0
	for _, r := range recs {
		if r.Doc != nil {
			out = append(out, InputVal{Name: r.Name, Kind: r.Kind, Tag: r.Tag, Val: e.renderDoc(r.Doc)})
			continue
		}
		if r.T == nil {
			out = append(out, InputVal{Name: r.Name, Kind: r.Kind, Tag: r.Tag, Val: r.Const})
			continue
		}
		out = append(out, InputVal{Name: r.Name, Kind: r.Kind, Tag: r.Tag, Val: vals[k].String()})
		k++
	}
	return out
}

func (e *Engine) trailVector() []int64 {
	out := make([]int64, 0, e.di)
	for i := 0; i < e.di && i < len(e.trail); i++ {
		d := e.trail[i]
		if d.kind == "value" {
			out = append(out, d.vals[len(d.vals)-1])
		} else {
			out = append(out, int64(d.cur))
		}
	}
	return out
}

// ---- nondet values

func (e *Engine) newInput(kind, tag string, sort Sort) *Term {
	if e.concrete {
		return e.concreteInput(kind, tag, sort)
	}
	idx := len(e.nondets)
	name := fmt.Sprintf("in%d_%s", idx, sortTag(sort))
	t := e.ts.Var(name, sort)
	e.nondets = append(e.nondets, nondetRec{Name: name, Kind: kind, Tag: tag, T: t})
	return t
}

func (e *Engine) freshAux(prefix string, sort Sort) *Term {
	e.auxCount++
	name := fmt.Sprintf("aux%d_%s_%s", e.auxCount, prefix, sortTag(sort))
	return e.ts.Var(name, sort)
}

func sortTag(s Sort) string {
	switch s.K {
	case SBool:
		return "b"
	case SInt:
		return "i"
	case SBV:
		return fmt.Sprintf("bv%d", s.W)
	case SStr:
		return "s"
	}
	return "x"
}

// ---- path lifecycle

func (e *Engine) endPath(r pathResult) {
	e.resMu.Lock()
	if e.result == nil {
		rr := r
		e.result = &rr
		select {
		case e.pathEnd <- struct{}{}:
		default:
		}
	}
	e.resMu.Unlock()
}

func (e *Engine) budgetExceeded(fr *frame, instr ssa.Instruction) {
	e.endPath(pathResult{kind: "budget", msg: fmt.Sprintf("instruction budget %d exceeded in %s", e.budget, fr.fn)})
	panic(pathAbort{"budget"})
}

func (e *Engine) resetPath() {
	e.ts = NewTermStore()
	e.globals = map[*ssa.Global]*Value{}
	e.nondets = nil
	e.auxCount = 0
	e.gors = nil
	e.cur = nil
	e.multi = false
	e.preempts = 0
	e.steps = 0
	e.depth = 0
	e.opaqueSeq = 0
	e.cells = map[any]*cellMeta{}
	e.mutexes = map[*Value]*mutexState{}
	e.rws = map[*Value]*rwState{}
	e.wgs = map[*Value]*wgState{}
	e.atomics = map[*Value]*atomicState{}
	e.observes = nil
	e.clock = 0
	e.symNames = map[string]Value{}
	e.docSeq = 0
	e.extErrs = map[string]Value{}
	e.timeLocs = map[string]*Value{}
	e.pathCover = map[string]bool{}
	e.opaqueText = nil
	e.onceDone = map[*Value]bool{}
	e.conds = map[*Value]*condState{}
	e.syncMaps = map[*Value]*Map{}
	e.schedLog = nil
	e.pointLog = nil
	e.decided = map[*Term]bool{}
	e.concretized = map[*Term]*big.Int{}
	e.usedVars = map[string]bool{}
	e.ptrIDs = map[*Value]uint64{}
	e.stepCtr = 0
	e.di = 0
	e.result = nil
	e.aborting = false
	e.pathEnd = make(chan struct{}, 1)
	e.live = e.firstRun || e.replayLen >= len(e.trail)
}

// runPath executes the harness once, following e.trail[:replayLen] and then
// advancing / extending.
func (e *Engine) runPath() pathResult {
	e.resetPath()
	g := e.newGor(e.entry, nil, e.entry.Pos())
	g.vc.set(0, 1)
	e.cur = g
	e.hostWG.Add(1)
	go e.mainGor(g)
	g.wake <- struct{}{}
	<-e.pathEnd
	e.aborting = true
	// unwind everything that is still parked
	for _, o := range e.gors {
		select {
		case o.wake <- struct{}{}:
		default:
		}
	}
	e.hostWG.Wait()
	res := *e.result
	if e.steps > e.stats.MaxPathInstrs {
		e.stats.MaxPathInstrs = e.steps
	}
	if len(e.trail) > e.stats.MaxTrail {
		e.stats.MaxTrail = len(e.trail)
	}
	return res
}

func (e *Engine) mainGor(g *Gor) {
	defer e.hostWG.Done()
	<-g.wake
	g.started = true
	defer func() {
		r := recover()
		switch r := r.(type) {
		case nil:
		case pathAbort:
		case targetPanic:
			e.endPath(pathResult{kind: "panic", msg: "uncaught panic in harness goroutine: " + e.panicString(r.v)})
		case *engineError:
			e.endPath(pathResult{kind: "engine", msg: r.msg})
		default:
			buf := make([]byte, 1<<14)
			n := runtimeStack(buf)
			e.endPath(pathResult{kind: "engine", msg: fmt.Sprintf("host panic: %v\n%s", r, buf[:n])})
		}
	}()
	for _, p := range e.initPkgs {
		if f := p.Func("init"); f != nil {
			e.call(nil, f.Pos(), f, nil)
		}
	}
	e.call(nil, e.entry.Pos(), e.entry, nil)
	g.done = true
	g.endVC = g.vc.clone()
	e.endPath(pathResult{kind: "ok"})
}

func (e *Engine) panicString(v Value) string {
	if ifc, ok := v.(Iface); ok {
		if ifc.T == nil {
			return "nil"
		}
		switch x := ifc.V.(type) {
		case string:
			return fmt.Sprintf("%s(%q)", typeKey(ifc.T), x)
		}
		return typeKey(ifc.T) + ":" + valString(ifc.V)
	}
	return valString(v)
}

// backtrack prepares the next path; false when the (sub)tree is exhausted.
func (e *Engine) backtrack() bool {
	for len(e.trail) > e.foreignLen {
		d := e.trail[len(e.trail)-1]
		exhausted := false
		switch d.kind {
		case "branch":
			exhausted = d.cur == 1 || d.n == 1
		case "value":
			exhausted = d.n >= 0 && len(d.vals) >= d.n
		default:
			exhausted = d.cur >= d.n-1
		}
		if exhausted || d.donated || d.forced {
			e.trail = e.trail[:len(e.trail)-1]
			continue
		}
		e.replayLen = len(e.trail) - 1
		e.solver.PopTo(e.replayLen)
		return true
	}
	return false
}

// Explore runs the whole search for one entry.
func (e *Engine) ExploreTask(t *task) {
	if e.start.IsZero() {
		e.start = time.Now()
	}
	e.solver.Reset()
	e.trail = t.prefix
	e.foreignLen = len(t.prefix)
	e.assertFrom = len(t.prefix)
	if t.owned {
		e.foreignLen--
	}
	e.replayLen = e.foreignLen
	e.firstRun = true
	first := true
	for {
		if !first {
			e.firstRun = false
			if !e.backtrack() {
				break
			}
		}
		first = false
		if e.pool != nil && e.pool.stopped() {
			break
		}
		if !e.deadline.IsZero() && time.Now().After(e.deadline) {
			e.noteInconclusive("time limit reached before the search finished")
			break
		}
		res := e.runPath()
		e.stats.Paths++
		switch res.kind {
		case "ok":
			e.stats.PathsOK++
			for c := range e.pathCover {
				e.covers[c]++
			}
			e.sample()
		case "infeasible":
			e.stats.Infeasible++
		case "violation":
			for c := range e.pathCover {
				e.covers[c]++
			}
			e.stop = e.pool == nil || e.pool.noteViolation()
		case "panic", "deadlock", "race":
			if e.opts.Forbid[res.kind] {
				// the path condition is satisfiable: take its model
				e.live = true
				e.recordViolation(res.kind, res.msg, res.kind, "")
				e.stop = e.pool == nil || e.pool.noteViolation()
			} else {
				e.stats.PathsOK++
			}
		case "budget":
			if e.opts.Forbid["budget"] {
				e.live = true
				e.recordViolation("termination", res.msg, "budget", "")
				e.stop = e.pool == nil || e.pool.noteViolation()
			} else {
				e.noteInconclusive("unwinding failure: " + res.msg)
				e.giveUp = true
			}
		case "engine":
			e.noteInconclusive("engine: " + res.msg)
			e.giveUp = true
		}
		if e.giveUp {
			if e.pool != nil {
				e.pool.killEntry(e.entryIdx)
			}
			break
		}
		if e.pool != nil && e.pool.isDead(e.entryIdx) {
			break
		}
		if e.verbose && e.stats.Paths%500 == 0 {
			fmt.Fprintf(os.Stderr, "  [%s] %d paths, trail %d, %.1fs\n", e.opts.Name, e.stats.Paths, len(e.trail), time.Since(e.start).Seconds())
		}
		if e.stop {
			if e.pool != nil {
				e.pool.stop()
			}
			break
		}
	}
}

// ---- work sharing between workers

type task struct {
	entry  int
	prefix []*decision
	owned  bool // the last prefix element is a value decision the receiver enumerates
}

type pool struct {
	mu      sync.Mutex
	cond    *sync.Cond
	queue   []*task
	workers int
	idle    int
	halt    bool
	tasks   int
	viol    int // counterexamples found so far (all workers)
	dead    map[int]bool // entries given up as inconclusive: their queued work is dropped, the others go on
}

// killEntry drops the remaining work of one entry (it ended inconclusive - unsupported construct, unwinding
// failure); the other entries of the run are explored to the end, so that a violation one of them holds is
// still found and reported.
func (p *pool) killEntry(entry int) {
	p.mu.Lock()
	if p.dead == nil {
		p.dead = map[int]bool{}
	}
	p.dead[entry] = true
	keep := p.queue[:0]
	for _, t := range p.queue {
		if t.entry != entry {
			keep = append(keep, t)
		}
	}
	p.queue = keep
	p.mu.Unlock()
	p.cond.Broadcast()
}

func (p *pool) isDead(entry int) bool {
	p.mu.Lock()
	defer p.mu.Unlock()
	return p.dead[entry]
}

// maxAlternatives: the search goes on after a counterexample until this many have been found (or the tree is
// exhausted), so that the native replay has alternatives when the first one does not reproduce.
const maxAlternatives = 3

// noteViolation counts a counterexample; true when enough have been collected.
func (p *pool) noteViolation() bool {
	p.mu.Lock()
	defer p.mu.Unlock()
	p.viol++
	return p.viol >= maxAlternatives
}

func newPool(workers int) *pool {
	p := &pool{workers: workers}
	p.cond = sync.NewCond(&p.mu)
	return p
}

func (p *pool) wantWork(depth int) bool {
	if depth > 48 {
		return false
	}
	p.mu.Lock()
	defer p.mu.Unlock()
	return !p.halt && (p.idle > 0 || len(p.queue) < p.workers)
}

func (p *pool) put(t *task) {
	p.mu.Lock()
	if p.dead[t.entry] {
		p.mu.Unlock()
		return
	}
	p.queue = append(p.queue, t)
	p.tasks++
	p.mu.Unlock()
	p.cond.Signal()
}

// get blocks until a task is available; nil when all work is done.
func (p *pool) get() *task {
	p.mu.Lock()
	defer p.mu.Unlock()
	p.idle++
	for len(p.queue) == 0 {
		if p.idle == p.workers || p.halt {
			p.cond.Broadcast()
			return nil
		}
		p.cond.Wait()
	}
	p.idle--
	// newest first keeps prefixes short-lived; oldest first spreads work. Use oldest.
	t := p.queue[0]
	p.queue = p.queue[1:]
	return t
}

func (p *pool) stop() {
	p.mu.Lock()
	p.halt = true
	p.queue = nil
	p.mu.Unlock()
	p.cond.Broadcast()
}

func (p *pool) stopped() bool {
	p.mu.Lock()
	defer p.mu.Unlock()
	return p.halt
}

// sample keeps a few completed paths (decision vector + model) for the evidence.
func (e *Engine) sample() {
	if len(e.samples) >= 3 {
		return
	}
	// spread: 1st, and then sparse
	if len(e.samples) > 0 && e.stats.PathsOK%97 != 0 {
		return
	}
	e.live = true
	s := map[string]any{
		"entry":     e.opts.Name,
		"decisions": e.trailVector(),
		"inputs":    e.modelInputs(),
	}
	if len(e.observes) > 0 {
		obs := e.observes
		if len(obs) > 12 {
			obs = obs[:12]
		}
		s["observed"] = obs
	}
	e.samples = append(e.samples, s)
}

func (e *Engine) noteStub(name string) {
	e.stubsHit[name]++
}

// encodedName caches, per function, the name under which it is counted in the
// evidence ("" = not counted: outside the module under test or a harness function).
var encodedName sync.Map // *ssa.Function -> string

func (e *Engine) noteEncoded(fn *ssa.Function) {
	if n, ok := encodedName.Load(fn); ok {
		if s := n.(string); s != "" {
			e.encodedFns[s]++
		}
		return
	}
	n := e.encodedNameOf(fn)
	encodedName.Store(fn, n)
	if n != "" {
		e.encodedFns[n]++
	}
}

func (e *Engine) encodedNameOf(fn *ssa.Function) string {
	if fn.Pkg == nil && fn.Origin() == nil && fn.Parent() == nil {
		return ""
	}
	p := fn.Pkg
	if p == nil && fn.Origin() != nil {
		p = fn.Origin().Pkg
	}
	if p == nil && fn.Parent() != nil {
		p = fn.Parent().Pkg
		if p == nil && fn.Parent().Origin() != nil {
			p = fn.Parent().Origin().Pkg
		}
	}
	if p == nil || !strings.HasPrefix(p.Pkg.Path(), "github.com/jilio/ebu") {
		return ""
	}
	name := funcKey(fn)
	if fn.Parent() != nil {
		name = fn.String()
	}
	// skip harness functions
	if pos := fn.Pos(); pos.IsValid() {
		file := e.prog.Fset.Position(pos).Filename
		if strings.Contains(file, "zz_verif_") {
			return ""
		}
	}
	return name
}

func sortedKeys[V any](m map[string]V) []string {
	out := make([]string, 0, len(m))
	for k := range m {
		out = append(out, k)
	}
	sort.Strings(out)
	return out
}

// ---- conformance mode: random concrete inputs

func (e *Engine) concreteInput(kind, tag string, sort Sort) *Term {
	var t *Term
	var val string
	switch sort.K {
	case SBool:
		b := e.rng.Intn(2) == 1
		t, val = e.ts.Bool(b), fmt.Sprint(b)
	case SInt:
		t, val = e.ts.Int(0), "0"
	case SBV:
		// name bytes [a-z0-9]
		const alpha = "abcdefghijklmnopqrstuvwxyz0123456789"
		c := alpha[e.rng.Intn(len(alpha))]
		t, val = e.ts.BV(uint64(c), sort.W), fmt.Sprint(int(c))
	case SStr:
		pool := []string{"", "a", "b", "k1", "a/b", "x y", "eventbus.evA"}
		sv := pool[e.rng.Intn(len(pool))]
		t, val = e.ts.StrC(sv), fmt.Sprintf("%q", sv)
	}
	e.nondets = append(e.nondets, nondetRec{Name: fmt.Sprintf("in%d_c", len(e.nondets)), Kind: kind, Tag: tag, Const: val})
	return t
}

func (e *Engine) concreteInt(kind, tag string, lo, hi int64) Value {
	var v int64
	switch r := e.rng.Intn(10); {
	case lo >= hi:
		v = lo
	case r < 3:
		v = lo
	case r < 6:
		v = hi
	default:
		span := hi - lo
		if span > 1<<40 {
			span = 1 << 40
		}
		v = lo + e.rng.Int63n(span+1)
	}
	e.nondets = append(e.nondets, nondetRec{Name: fmt.Sprintf("in%d_c", len(e.nondets)), Kind: kind, Tag: tag, Const: fmt.Sprint(v)})
	return v
}

// RunConformance executes k random concrete runs and returns them.
type ConfRun struct {
	Inputs []InputVal
	Sched  []schedEv
	Trace  []string
	Multi  bool
	Result string
}

func (e *Engine) RunConformance(k int, seed int64) []ConfRun {
	var out []ConfRun
	e.concrete = true
	for i, tries := 0, 0; i < k && tries < 40*k; tries++ {
		e.rng = rand.New(rand.NewSource(seed*7919 + int64(tries)))
		e.trail, e.replayLen, e.foreignLen, e.firstRun = nil, 0, 0, false
		e.ctrace = nil
		res := e.runPath()
		if res.kind == "infeasible" {
			continue
		}
		r := ConfRun{Trace: append([]string(nil), e.ctrace...), Sched: e.replaySchedule(e.schedLog), Multi: e.multi, Result: res.kind}
		if res.kind != "ok" {
			r.Result = res.kind + ": " + res.msg + res.label
		}
		for _, n := range e.nondets {
			r.Inputs = append(r.Inputs, InputVal{Name: n.Name, Kind: n.Kind, Tag: n.Tag, Val: n.Const})
		}
		out = append(out, r)
		i++
	}
	e.concrete = false
	return out
}
