package main

// Replay instrumenter for concurrent counterexamples (DESIGN A.7): rewrites
// the sources of the package under test (and the harness files) so that every
// synchronisation operation passes through vsBefore()/vsAfter() and every `go`
// through vsGo(), which lets the native replay runtime admit goroutines in the
// order the symbolic run recorded. The rewritten files exist only in the
// overlay of the replay build; /repo is never modified.

import (
	"bytes"
	"fmt"
	"go/ast"
	"go/printer"
	"go/token"
	"go/types"
	"path/filepath"
	"strings"
	"sync"

	"golang.org/x/tools/go/ast/astutil"
)

var instrumentedFuncs = map[string]bool{
	"(*sync.Mutex).Lock": true, "(*sync.Mutex).Unlock": true, "(*sync.Mutex).TryLock": true,
	"(*sync.RWMutex).Lock": true, "(*sync.RWMutex).Unlock": true, "(*sync.RWMutex).RLock": true, "(*sync.RWMutex).RUnlock": true,
	"(*sync.RWMutex).TryLock": true, "(*sync.RWMutex).TryRLock": true,
	"(*sync.Cond).Wait": true, "(*sync.Cond).Signal": true, "(*sync.Cond).Broadcast": true,
	"(*sync.WaitGroup).Add": true, "(*sync.WaitGroup).Done": true, "(*sync.WaitGroup).Wait": true,
	"runtime.Gosched": true, "time.Sleep": true,
}

var tryLockName = map[string]string{
	"(*sync.Mutex).Lock":    "TryLock",
	"(*sync.RWMutex).Lock":  "TryLock",
	"(*sync.RWMutex).RLock": "TryRLock",
}

func isInstrumentedFunc(f *types.Func) bool {
	name := f.FullName()
	if instrumentedFuncs[name] {
		return true
	}
	if strings.HasPrefix(name, "sync/atomic.") || strings.HasPrefix(name, "(*sync/atomic.") {
		return true
	}
	// library objects with an internal lock: one point per method call
	if name == "(*sync.Once).Do" || strings.HasPrefix(name, "(*sync.Map).") {
		return true
	}
	return false
}

func calleeFunc(info *types.Info, call *ast.CallExpr) *types.Func {
	switch fun := call.Fun.(type) {
	case *ast.SelectorExpr:
		if f, ok := info.Uses[fun.Sel].(*types.Func); ok {
			return f
		}
	case *ast.Ident:
		if f, ok := info.Uses[fun].(*types.Func); ok {
			return f
		}
	}
	return nil
}

func isBuiltinClose(info *types.Info, call *ast.CallExpr) bool {
	id, ok := call.Fun.(*ast.Ident)
	if !ok || id.Name != "close" {
		return false
	}
	_, isB := info.Uses[id].(*types.Builtin)
	return isB
}

func callStmt(name string) ast.Stmt {
	return &ast.ExprStmt{X: &ast.CallExpr{Fun: ast.NewIdent(name)}}
}

// instrumentFile returns the rewritten source of one file.
func instrumentFile(fset *token.FileSet, file *ast.File, info *types.Info, pkg *types.Package) ([]byte, error) {
	handled := map[ast.Node]bool{}
	tmp := 0
	syncCall := func(e ast.Expr) *ast.CallExpr {
		call, ok := e.(*ast.CallExpr)
		if !ok {
			return nil
		}
		if f := calleeFunc(info, call); f != nil && isInstrumentedFunc(f) {
			return call
		}
		if isBuiltinClose(info, call) {
			return call
		}
		return nil
	}
	inSelectComm := map[ast.Node]bool{}
	ast.Inspect(file, func(n ast.Node) bool {
		if cc, ok := n.(*ast.CommClause); ok && cc.Comm != nil {
			ast.Inspect(cc.Comm, func(m ast.Node) bool {
				if m != nil {
					inSelectComm[m] = true
				}
				return true
			})
		}
		return true
	})
	result := astutil.Apply(file, nil, func(c *astutil.Cursor) bool {
		switch n := c.Node().(type) {
		case *ast.GoStmt:
			var stmts []ast.Stmt
			var args []ast.Expr
			for _, a := range n.Call.Args {
				tmp++
				name := fmt.Sprintf("vsArg%d", tmp)
				stmts = append(stmts, &ast.AssignStmt{Lhs: []ast.Expr{ast.NewIdent(name)}, Tok: token.DEFINE, Rhs: []ast.Expr{a}})
				args = append(args, ast.NewIdent(name))
			}
			inner := &ast.CallExpr{Fun: n.Call.Fun, Args: args, Ellipsis: n.Call.Ellipsis}
			lit := &ast.FuncLit{Type: &ast.FuncType{Params: &ast.FieldList{}}, Body: &ast.BlockStmt{List: []ast.Stmt{&ast.ExprStmt{X: inner}}}}
			stmts = append(stmts, &ast.ExprStmt{X: &ast.CallExpr{Fun: ast.NewIdent("vsGo"), Args: []ast.Expr{lit}}})
			c.Replace(&ast.BlockStmt{List: stmts})
		case *ast.DeferStmt:
			if call := syncCall(n.Call); call != nil {
				handled[call] = true
				lit := &ast.FuncLit{Type: &ast.FuncType{Params: &ast.FieldList{}}, Body: &ast.BlockStmt{List: []ast.Stmt{
					callStmt("vsBefore"), &ast.ExprStmt{X: call}, callStmt("vsAfter")}}}
				n.Call = &ast.CallExpr{Fun: lit}
			}
		case *ast.ExprStmt:
			if call := syncCall(n.X); call != nil && !handled[call] {
				handled[call] = true
				// lock acquisitions go through TryLock under the recorded schedule
				if f := calleeFunc(info, call); f != nil {
					if try, ok := tryLockName[f.FullName()]; ok {
						if sel, ok := call.Fun.(*ast.SelectorExpr); ok {
							acq := &ast.CallExpr{Fun: ast.NewIdent("vsAcquire"), Args: []ast.Expr{
								&ast.SelectorExpr{X: sel.X, Sel: ast.NewIdent(try)},
								&ast.SelectorExpr{X: sel.X, Sel: ast.NewIdent(sel.Sel.Name)},
							}}
							c.Replace(&ast.ExprStmt{X: acq})
							return true
						}
					}
				}
				c.Replace(&ast.BlockStmt{List: []ast.Stmt{callStmt("vsBefore"), &ast.ExprStmt{X: call}, callStmt("vsAfter")}})
			} else if u, ok := n.X.(*ast.UnaryExpr); ok && u.Op == token.ARROW && !inSelectComm[u] {
				c.Replace(&ast.BlockStmt{List: []ast.Stmt{callStmt("vsBefore"), &ast.ExprStmt{X: u}, callStmt("vsAfter")}})
			}
		case *ast.SendStmt:
			if !inSelectComm[n] {
				c.Replace(&ast.BlockStmt{List: []ast.Stmt{callStmt("vsBefore"), n, callStmt("vsAfter")}})
			}
		case *ast.SelectStmt:
			for _, cl := range n.Body.List {
				cc := cl.(*ast.CommClause)
				cc.Body = append([]ast.Stmt{callStmt("vsAfter")}, cc.Body...)
			}
			c.Replace(&ast.BlockStmt{List: []ast.Stmt{callStmt("vsBefore"), n}})
		case *ast.CallExpr:
			if handled[n] {
				return true
			}
			// a sync call used as an expression (e.g. atomic.CompareAndSwap in a condition)
			if _, isStmt := c.Parent().(*ast.ExprStmt); isStmt {
				return true
			}
			if _, isDefer := c.Parent().(*ast.DeferStmt); isDefer {
				return true
			}
			if _, isGo := c.Parent().(*ast.GoStmt); isGo {
				return true
			}
			call := syncCall(n)
			if call == nil || isBuiltinClose(info, call) {
				return true
			}
			tv, ok := info.Types[n]
			if !ok || tv.Type == nil {
				return true
			}
			if tup, isTuple := tv.Type.(*types.Tuple); isTuple && tup.Len() != 1 {
				return true
			}
			handled[n] = true
			tstr := types.TypeString(tv.Type, types.RelativeTo(pkg))
			tt, err := parseTypeExpr(tstr)
			if err != nil {
				return true
			}
			lit := &ast.FuncLit{
				Type: &ast.FuncType{Params: &ast.FieldList{}, Results: &ast.FieldList{List: []*ast.Field{{Type: tt}}}},
				Body: &ast.BlockStmt{List: []ast.Stmt{
					callStmt("vsBefore"),
					&ast.DeferStmt{Call: &ast.CallExpr{Fun: ast.NewIdent("vsAfter")}},
					&ast.ReturnStmt{Results: []ast.Expr{n}},
				}},
			}
			c.Replace(&ast.CallExpr{Fun: lit})
		}
		return true
	})
	var buf bytes.Buffer
	cfg := printer.Config{Mode: printer.UseSpaces | printer.TabIndent, Tabwidth: 8}
	if err := cfg.Fprint(&buf, token.NewFileSet(), result); err != nil {
		return nil, err
	}
	return buf.Bytes(), nil
}

func parseTypeExpr(s string) (ast.Expr, error) {
	switch s {
	case "bool", "int", "int32", "int64", "uint", "uint32", "uint64", "uintptr", "string", "any":
		return ast.NewIdent(s), nil
	}
	return nil, fmt.Errorf("unsupported result type %s", s)
}

// instrumentPackage rewrites every real source file of the package under test
// and every harness file. It returns original path -> instrumented text.
//
// The rewrite mutates the loaded syntax trees in place, so it is done exactly
// once per load and the result is shared by every replay of that load (a
// second pass over the same trees would nest the hooks and shift every point
// number: replays of a second counterexample then diverged).
func instrumentPackage(l *Loaded) (map[string][]byte, error) {
	instrOnce.Lock()
	defer instrOnce.Unlock()
	if r, ok := instrCache[l]; ok {
		return r.m, r.err
	}
	m, err := instrumentPackageOnce(l)
	instrCache[l] = instrResult{m, err}
	return m, err
}

type instrResult struct {
	m   map[string][]byte
	err error
}

var (
	instrOnce  sync.Mutex
	instrCache = map[*Loaded]instrResult{}
)

func instrumentPackageOnce(l *Loaded) (map[string][]byte, error) {
	out := map[string][]byte{}
	p := l.MainPkg
	for i, f := range p.Syntax {
		name := p.CompiledGoFiles[i]
		base := filepath.Base(name)
		if strings.HasPrefix(base, "zz_verif_rt_") || strings.HasPrefix(base, "zz_verif_m_") || strings.HasSuffix(base, "_test.go") {
			continue
		}
		src, err := instrumentFile(l.Prog.Fset, f, p.TypesInfo, p.Types)
		if err != nil {
			return nil, fmt.Errorf("%s: %v", name, err)
		}
		out[name] = src
	}
	return out, nil
}
