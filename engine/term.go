package main

// SMT terms: hash-consed s-expressions with a sort, light constant folding and
// (for Int terms) a conservative interval used to decide whether a Go integer
// operation can leave its type's range.

import (
	"fmt"
	"math/big"
	"strings"
)

type SortKind int

const (
	SBool SortKind = iota
	SInt
	SBV
	SStr
)

type Sort struct {
	K SortKind
	W int // bit width for SBV
}

func (s Sort) String() string {
	switch s.K {
	case SBool:
		return "Bool"
	case SInt:
		return "Int"
	case SBV:
		return fmt.Sprintf("(_ BitVec %d)", s.W)
	case SStr:
		return "String"
	}
	return "?"
}

var (
	sortBool = Sort{K: SBool}
	sortInt  = Sort{K: SInt}
	sortStr  = Sort{K: SStr}
)

func sortBV(w int) Sort { return Sort{K: SBV, W: w} }

type Term struct {
	Sort Sort
	S    string // SMT-LIB text
	// constants
	Const bool
	I     *big.Int // Int / BV constant
	B     bool
	Str   string
	// variables
	Var bool
	// interval (Int sort only); nil = unbounded
	Lo, Hi *big.Int
	// variables mentioned (names)
	vars map[string]*Term
}

func (t *Term) String() string { return t.S }

type TermStore struct {
	tab map[string]*Term
}

func NewTermStore() *TermStore { return &TermStore{tab: map[string]*Term{}} }

func (ts *TermStore) intern(t *Term) *Term {
	if o, ok := ts.tab[t.S]; ok {
		return o
	}
	ts.tab[t.S] = t
	return t
}

func unionVars(args ...*Term) map[string]*Term {
	var m map[string]*Term
	n := 0
	for _, a := range args {
		n += len(a.vars)
	}
	if n == 0 {
		return nil
	}
	m = make(map[string]*Term, n)
	for _, a := range args {
		for k, v := range a.vars {
			m[k] = v
		}
	}
	return m
}

func (ts *TermStore) mk(sort Sort, op string, args ...*Term) *Term {
	var sb strings.Builder
	sb.WriteByte('(')
	sb.WriteString(op)
	for _, a := range args {
		sb.WriteByte(' ')
		sb.WriteString(a.S)
	}
	sb.WriteByte(')')
	t := &Term{Sort: sort, S: sb.String(), vars: unionVars(args...)}
	return ts.intern(t)
}

func (ts *TermStore) Var(name string, sort Sort) *Term {
	t := &Term{Sort: sort, S: name, Var: true}
	t.vars = map[string]*Term{name: t}
	return ts.intern(t)
}

// ---- constants

func (ts *TermStore) Bool(b bool) *Term {
	s := "false"
	if b {
		s = "true"
	}
	return ts.intern(&Term{Sort: sortBool, S: s, Const: true, B: b})
}

func (ts *TermStore) IntBig(v *big.Int) *Term {
	var s string
	if v.Sign() < 0 {
		s = "(- " + new(big.Int).Neg(v).String() + ")"
	} else {
		s = v.String()
	}
	c := new(big.Int).Set(v)
	return ts.intern(&Term{Sort: sortInt, S: s, Const: true, I: c, Lo: c, Hi: c})
}

func (ts *TermStore) Int(v int64) *Term { return ts.IntBig(big.NewInt(v)) }

func (ts *TermStore) BV(v uint64, w int) *Term {
	if w < 64 {
		v &= (uint64(1) << uint(w)) - 1
	}
	s := fmt.Sprintf("(_ bv%d %d)", v, w)
	return ts.intern(&Term{Sort: sortBV(w), S: s, Const: true, I: new(big.Int).SetUint64(v)})
}

func smtStringLit(s string) string {
	var sb strings.Builder
	sb.WriteByte('"')
	for _, r := range []byte(s) {
		switch {
		case r == '"':
			sb.WriteString(`""`)
		case r >= 0x20 && r < 0x7f && r != '\\':
			sb.WriteByte(r)
		default:
			fmt.Fprintf(&sb, `\u{%x}`, r)
		}
	}
	sb.WriteByte('"')
	return sb.String()
}

func (ts *TermStore) StrC(s string) *Term {
	return ts.intern(&Term{Sort: sortStr, S: smtStringLit(s), Const: true, Str: s})
}

// ---- boolean

func (ts *TermStore) Not(a *Term) *Term {
	if a.Const {
		return ts.Bool(!a.B)
	}
	if strings.HasPrefix(a.S, "(not ") {
		// (not X) -> X
		inner := a.S[5 : len(a.S)-1]
		if t, ok := ts.tab[inner]; ok {
			return t
		}
	}
	return ts.mk(sortBool, "not", a)
}

func (ts *TermStore) And(as ...*Term) *Term {
	var out []*Term
	for _, a := range as {
		if a.Const {
			if !a.B {
				return ts.Bool(false)
			}
			continue
		}
		out = append(out, a)
	}
	switch len(out) {
	case 0:
		return ts.Bool(true)
	case 1:
		return out[0]
	}
	return ts.mk(sortBool, "and", out...)
}

func (ts *TermStore) Or(as ...*Term) *Term {
	var out []*Term
	for _, a := range as {
		if a.Const {
			if a.B {
				return ts.Bool(true)
			}
			continue
		}
		out = append(out, a)
	}
	switch len(out) {
	case 0:
		return ts.Bool(false)
	case 1:
		return out[0]
	}
	return ts.mk(sortBool, "or", out...)
}

func (ts *TermStore) Implies(a, b *Term) *Term { return ts.Or(ts.Not(a), b) }

func (ts *TermStore) Ite(c, a, b *Term) *Term {
	if c.Const {
		if c.B {
			return a
		}
		return b
	}
	if a == b {
		return a
	}
	t := ts.mk(a.Sort, "ite", c, a, b)
	if a.Sort.K == SInt && t.Lo == nil && t.Hi == nil {
		t.Lo, t.Hi = minBig(a.Lo, b.Lo), maxBig(a.Hi, b.Hi)
	}
	return t
}

func minBig(a, b *big.Int) *big.Int {
	if a == nil || b == nil {
		return nil
	}
	if a.Cmp(b) <= 0 {
		return a
	}
	return b
}
func maxBig(a, b *big.Int) *big.Int {
	if a == nil || b == nil {
		return nil
	}
	if a.Cmp(b) >= 0 {
		return a
	}
	return b
}

func (ts *TermStore) Eq(a, b *Term) *Term {
	if a == b {
		return ts.Bool(true)
	}
	if a.Sort != b.Sort {
		panic(engineErr("sort mismatch in =: %s : %s vs %s : %s", a.S, a.Sort, b.S, b.Sort))
	}
	if a.Const && b.Const {
		switch a.Sort.K {
		case SBool:
			return ts.Bool(a.B == b.B)
		case SInt, SBV:
			return ts.Bool(a.I.Cmp(b.I) == 0)
		case SStr:
			return ts.Bool(a.Str == b.Str)
		}
	}
	if a.Sort.K == SInt {
		// disjoint intervals
		if a.Hi != nil && b.Lo != nil && a.Hi.Cmp(b.Lo) < 0 {
			return ts.Bool(false)
		}
		if b.Hi != nil && a.Lo != nil && b.Hi.Cmp(a.Lo) < 0 {
			return ts.Bool(false)
		}
	}
	if a.Sort.K == SBool {
		if a.Const {
			if a.B {
				return b
			}
			return ts.Not(b)
		}
		if b.Const {
			if b.B {
				return a
			}
			return ts.Not(a)
		}
	}
	if a.S > b.S {
		a, b = b, a
	}
	return ts.mk(sortBool, "=", a, b)
}

// ---- Int arithmetic

func addBig(a, b *big.Int) *big.Int {
	if a == nil || b == nil {
		return nil
	}
	return new(big.Int).Add(a, b)
}
func subBig(a, b *big.Int) *big.Int {
	if a == nil || b == nil {
		return nil
	}
	return new(big.Int).Sub(a, b)
}

func (ts *TermStore) Add(a, b *Term) *Term {
	if a.Const && b.Const {
		return ts.IntBig(new(big.Int).Add(a.I, b.I))
	}
	if a.Const && a.I.Sign() == 0 {
		return b
	}
	if b.Const && b.I.Sign() == 0 {
		return a
	}
	t := ts.mk(sortInt, "+", a, b)
	if t.Lo == nil && t.Hi == nil {
		t.Lo, t.Hi = addBig(a.Lo, b.Lo), addBig(a.Hi, b.Hi)
	}
	return t
}

func (ts *TermStore) Sub(a, b *Term) *Term {
	if a.Const && b.Const {
		return ts.IntBig(new(big.Int).Sub(a.I, b.I))
	}
	if b.Const && b.I.Sign() == 0 {
		return a
	}
	if a == b {
		return ts.Int(0)
	}
	t := ts.mk(sortInt, "-", a, b)
	if t.Lo == nil && t.Hi == nil {
		t.Lo, t.Hi = subBig(a.Lo, b.Hi), subBig(a.Hi, b.Lo)
	}
	return t
}

func (ts *TermStore) Neg(a *Term) *Term { return ts.Sub(ts.Int(0), a) }

func (ts *TermStore) Mul(a, b *Term) *Term {
	if a.Const && b.Const {
		return ts.IntBig(new(big.Int).Mul(a.I, b.I))
	}
	t := ts.mk(sortInt, "*", a, b)
	if t.Lo == nil && t.Hi == nil && a.Lo != nil && a.Hi != nil && b.Lo != nil && b.Hi != nil {
		c := []*big.Int{
			new(big.Int).Mul(a.Lo, b.Lo), new(big.Int).Mul(a.Lo, b.Hi),
			new(big.Int).Mul(a.Hi, b.Lo), new(big.Int).Mul(a.Hi, b.Hi)}
		lo, hi := c[0], c[0]
		for _, x := range c[1:] {
			if x.Cmp(lo) < 0 {
				lo = x
			}
			if x.Cmp(hi) > 0 {
				hi = x
			}
		}
		t.Lo, t.Hi = lo, hi
	}
	return t
}

// Div/Mod are SMT-LIB euclidean; Go truncates. Callers only use them on
// non-negative operands (checked through intervals) or fall back.
func (ts *TermStore) DivE(a, b *Term) *Term {
	t := ts.mk(sortInt, "div", a, b)
	if t.Lo == nil && t.Hi == nil && a.Lo != nil && a.Lo.Sign() >= 0 && b.Lo != nil && b.Lo.Sign() > 0 {
		t.Lo = big.NewInt(0)
		t.Hi = a.Hi
	}
	return t
}
func (ts *TermStore) ModE(a, b *Term) *Term {
	t := ts.mk(sortInt, "mod", a, b)
	if t.Lo == nil && t.Hi == nil && b.Const && b.I.Sign() > 0 {
		t.Lo = big.NewInt(0)
		t.Hi = new(big.Int).Sub(b.I, big.NewInt(1))
	}
	return t
}

func (ts *TermStore) cmpFold(op string, a, b *Term) (*Term, bool) {
	if a == b {
		return ts.Bool(op == "<="), true
	}
	if a.Const && b.Const {
		c := a.I.Cmp(b.I)
		switch op {
		case "<":
			return ts.Bool(c < 0), true
		case "<=":
			return ts.Bool(c <= 0), true
		}
	}
	// interval reasoning
	if a.Hi != nil && b.Lo != nil {
		c := a.Hi.Cmp(b.Lo)
		if (op == "<" && c < 0) || (op == "<=" && c <= 0) {
			return ts.Bool(true), true
		}
	}
	if a.Lo != nil && b.Hi != nil {
		c := a.Lo.Cmp(b.Hi)
		if (op == "<" && c >= 0) || (op == "<=" && c > 0) {
			return ts.Bool(false), true
		}
	}
	return nil, false
}

func (ts *TermStore) Lt(a, b *Term) *Term {
	if r, ok := ts.cmpFold("<", a, b); ok {
		return r
	}
	return ts.mk(sortBool, "<", a, b)
}
func (ts *TermStore) Le(a, b *Term) *Term {
	if r, ok := ts.cmpFold("<=", a, b); ok {
		return r
	}
	return ts.mk(sortBool, "<=", a, b)
}

// ---- bit-vectors

func (ts *TermStore) bvBin(op string, a, b *Term, f func(x, y uint64) uint64) *Term {
	if a.Sort != b.Sort {
		panic(engineErr("bv sort mismatch %s %s %s", op, a.Sort, b.Sort))
	}
	if a.Const && b.Const && f != nil {
		return ts.BV(f(a.I.Uint64(), b.I.Uint64()), a.Sort.W)
	}
	return ts.mk(a.Sort, op, a, b)
}

func (ts *TermStore) BVAdd(a, b *Term) *Term {
	return ts.bvBin("bvadd", a, b, func(x, y uint64) uint64 { return x + y })
}
func (ts *TermStore) BVSub(a, b *Term) *Term {
	return ts.bvBin("bvsub", a, b, func(x, y uint64) uint64 { return x - y })
}
func (ts *TermStore) BVMul(a, b *Term) *Term {
	return ts.bvBin("bvmul", a, b, func(x, y uint64) uint64 { return x * y })
}
func (ts *TermStore) BVAnd(a, b *Term) *Term {
	return ts.bvBin("bvand", a, b, func(x, y uint64) uint64 { return x & y })
}
func (ts *TermStore) BVOr(a, b *Term) *Term {
	return ts.bvBin("bvor", a, b, func(x, y uint64) uint64 { return x | y })
}
func (ts *TermStore) BVXor(a, b *Term) *Term {
	return ts.bvBin("bvxor", a, b, func(x, y uint64) uint64 { return x ^ y })
}
func (ts *TermStore) BVShl(a, b *Term) *Term  { return ts.bvBin("bvshl", a, b, nil) }
func (ts *TermStore) BVLshr(a, b *Term) *Term { return ts.bvBin("bvlshr", a, b, nil) }
func (ts *TermStore) BVUdiv(a, b *Term) *Term { return ts.bvBin("bvudiv", a, b, nil) }
func (ts *TermStore) BVUrem(a, b *Term) *Term { return ts.bvBin("bvurem", a, b, nil) }
func (ts *TermStore) BVNot(a *Term) *Term {
	if a.Const {
		return ts.BV(^a.I.Uint64(), a.Sort.W)
	}
	return ts.mk(a.Sort, "bvnot", a)
}
func (ts *TermStore) BVNeg(a *Term) *Term {
	if a.Const {
		return ts.BV(-a.I.Uint64(), a.Sort.W)
	}
	return ts.mk(a.Sort, "bvneg", a)
}
func (ts *TermStore) BVUlt(a, b *Term) *Term {
	if a == b {
		return ts.Bool(false)
	}
	if a.Const && b.Const {
		return ts.Bool(a.I.Cmp(b.I) < 0)
	}
	return ts.mk(sortBool, "bvult", a, b)
}
func (ts *TermStore) BVUle(a, b *Term) *Term {
	if a == b {
		return ts.Bool(true)
	}
	if a.Const && b.Const {
		return ts.Bool(a.I.Cmp(b.I) <= 0)
	}
	return ts.mk(sortBool, "bvule", a, b)
}
func (ts *TermStore) BVZext(a *Term, w int) *Term {
	if a.Sort.W == w {
		return a
	}
	if a.Const {
		return ts.BV(a.I.Uint64(), w)
	}
	return ts.mk(sortBV(w), fmt.Sprintf("(_ zero_extend %d)", w-a.Sort.W), a)
}
func (ts *TermStore) BVExtract(a *Term, w int) *Term {
	if a.Sort.W == w {
		return a
	}
	if a.Const {
		return ts.BV(a.I.Uint64(), w)
	}
	return ts.mk(sortBV(w), fmt.Sprintf("(_ extract %d 0)", w-1), a)
}
func (ts *TermStore) BV2Int(a *Term) *Term {
	if a.Const {
		return ts.IntBig(a.I)
	}
	t := ts.mk(sortInt, "bv2int", a)
	if t.Lo == nil {
		t.Lo = big.NewInt(0)
		t.Hi = new(big.Int).Sub(new(big.Int).Lsh(big.NewInt(1), uint(a.Sort.W)), big.NewInt(1))
	}
	return t
}
func (ts *TermStore) Int2BV(a *Term, w int) *Term {
	if a.Const {
		m := new(big.Int).Mod(a.I, new(big.Int).Lsh(big.NewInt(1), uint(w)))
		return ts.BV(m.Uint64(), w)
	}
	return ts.mk(sortBV(w), fmt.Sprintf("(_ int2bv %d)", w), a)
}

// ---- strings

func (ts *TermStore) StrConcat(as ...*Term) *Term {
	var out []*Term
	for _, a := range as {
		if a.Const && a.Str == "" {
			continue
		}
		if n := len(out); n > 0 && out[n-1].Const && a.Const {
			out[n-1] = ts.StrC(out[n-1].Str + a.Str)
			continue
		}
		out = append(out, a)
	}
	switch len(out) {
	case 0:
		return ts.StrC("")
	case 1:
		return out[0]
	}
	return ts.mk(sortStr, "str.++", out...)
}
func (ts *TermStore) StrLen(a *Term) *Term {
	if a.Const {
		return ts.Int(int64(len(a.Str)))
	}
	t := ts.mk(sortInt, "str.len", a)
	if t.Lo == nil {
		t.Lo = big.NewInt(0)
	}
	return t
}
func (ts *TermStore) StrLt(a, b *Term) *Term {
	if a.Const && b.Const {
		return ts.Bool(a.Str < b.Str)
	}
	return ts.mk(sortBool, "str.<", a, b)
}
func (ts *TermStore) StrLe(a, b *Term) *Term {
	if a.Const && b.Const {
		return ts.Bool(a.Str <= b.Str)
	}
	return ts.mk(sortBool, "str.<=", a, b)
}
func (ts *TermStore) StrContains(a, b *Term) *Term {
	if a.Const && b.Const {
		return ts.Bool(strings.Contains(a.Str, b.Str))
	}
	return ts.mk(sortBool, "str.contains", a, b)
}
func (ts *TermStore) StrPrefixOf(p, a *Term) *Term {
	if a.Const && p.Const {
		return ts.Bool(strings.HasPrefix(a.Str, p.Str))
	}
	return ts.mk(sortBool, "str.prefixof", p, a)
}

// WithRange attaches an interval to an Int term (used for nondet ints whose
// range is also asserted in the solver).
func (ts *TermStore) WithRange(t *Term, lo, hi *big.Int) *Term {
	t.Lo, t.Hi = lo, hi
	return t
}
