package main

// Front end: load /repo's current working tree (plus harness overlay) with
// go/packages, build SSA with instantiated generics.

import (
	"crypto/sha256"
	"fmt"
	"go/ast"
	"math/big"
	"os"
	"path/filepath"
	"regexp"
	"sort"
	"strconv"
	"strings"

	"golang.org/x/tools/go/packages"
	"golang.org/x/tools/go/ssa"
	"golang.org/x/tools/go/ssa/ssautil"
)

func bigFromInt64(x int64) *big.Int   { return big.NewInt(x) }
func bigFromUint64(x uint64) *big.Int { return new(big.Int).SetUint64(x) }

type LoadConfig struct {
	RepoDir      string   // module directory of the package under test (e.g. /repo or /repo/stores/sqlite)
	PkgDir       string   // directory of the package the harness is injected into
	Harness      []string // harness source files (package clause is rewritten)
	RTDecl       string   // runtime declarations file
	Models       []string // model source files injected alongside
	ExtraPkgs    []string // extra root patterns
	LightDeps    bool     // load dependencies from export data (types only) except ExtraPkgs
	StripImports []string // blank imports removed from the analysed copy of the package (drivers replaced by models)
	Verbose      bool
}

type Loaded struct {
	Prog     *ssa.Program
	Pkgs     []*packages.Package
	Main     *ssa.Package
	MainPkg  *packages.Package
	Overlay  map[string][]byte
	PkgDir   string
	Entries  []EntryOpts
	FileHash map[string]string
}

var pkgClauseRe = regexp.MustCompile(`(?m)^package\s+\w+`)

func rewritePackage(src []byte, pkgName string) []byte {
	loc := pkgClauseRe.FindIndex(src)
	if loc == nil {
		return src
	}
	out := append([]byte{}, src[:loc[0]]...)
	out = append(out, []byte("package "+pkgName)...)
	out = append(out, src[loc[1]:]...)
	return out
}

// packageNameOf reads the package clause of the first non-test go file in dir.
func packageNameOf(dir string) (string, error) {
	ents, err := os.ReadDir(dir)
	if err != nil {
		return "", err
	}
	for _, en := range ents {
		n := en.Name()
		if !strings.HasSuffix(n, ".go") || strings.HasSuffix(n, "_test.go") {
			continue
		}
		b, err := os.ReadFile(filepath.Join(dir, n))
		if err != nil {
			continue
		}
		m := pkgClauseRe.Find(b)
		if m != nil {
			return strings.Fields(string(m))[1], nil
		}
	}
	return "", fmt.Errorf("no go files in %s", dir)
}

func Load(cfg LoadConfig) (*Loaded, error) {
	pkgName, err := packageNameOf(cfg.PkgDir)
	if err != nil {
		return nil, err
	}
	overlay := map[string][]byte{}
	add := func(src string, prefix string) error {
		b, err := os.ReadFile(src)
		if err != nil {
			return err
		}
		base := strings.TrimSuffix(filepath.Base(src), ".go")
		base = strings.TrimSuffix(base, ".go.tmpl")
		dst := filepath.Join(cfg.PkgDir, "zz_verif_"+prefix+base+".go")
		overlay[dst] = rewritePackage(b, pkgName)
		return nil
	}
	for _, h := range cfg.Harness {
		if err := add(h, "h_"); err != nil {
			return nil, err
		}
	}
	if cfg.RTDecl != "" {
		if err := add(cfg.RTDecl, "rt_"); err != nil {
			return nil, err
		}
	}
	for _, m := range cfg.Models {
		if err := add(m, "m_"); err != nil {
			return nil, err
		}
	}
	// drop blank driver imports (the driver is replaced by a model); line numbers are preserved
	if len(cfg.StripImports) > 0 {
		ents, _ := os.ReadDir(cfg.PkgDir)
		for _, en := range ents {
			n := en.Name()
			if !strings.HasSuffix(n, ".go") || strings.HasSuffix(n, "_test.go") {
				continue
			}
			full := filepath.Join(cfg.PkgDir, n)
			b, err := os.ReadFile(full)
			if err != nil {
				continue
			}
			changed := false
			lines := strings.Split(string(b), "\n")
			for i, ln := range lines {
				for _, imp := range cfg.StripImports {
					if strings.TrimSpace(ln) == `_ "`+imp+`"` {
						lines[i] = ""
						changed = true
					}
				}
			}
			if changed {
				overlay[full] = []byte(strings.Join(lines, "\n"))
			}
		}
	}
	mode := packages.LoadAllSyntax
	env := append(os.Environ(), "GOPROXY=off", "GOFLAGS=-mod=mod")
	pcfg := &packages.Config{Mode: mode, Dir: cfg.PkgDir, Env: env, Overlay: overlay}
	patterns := append([]string{"."}, cfg.ExtraPkgs...)
	pkgs, err := packages.Load(pcfg, patterns...)
	if err != nil {
		return nil, fmt.Errorf("packages.Load: %w", err)
	}
	var errs []string
	packages.Visit(pkgs, nil, func(p *packages.Package) {
		for _, e := range p.Errors {
			errs = append(errs, e.Error())
		}
	})
	if len(errs) > 0 {
		if len(errs) > 12 {
			errs = errs[:12]
		}
		return nil, fmt.Errorf("load errors:\n  %s", strings.Join(errs, "\n  "))
	}
	prog, spkgs := ssautil.AllPackages(pkgs, ssa.InstantiateGenerics|ssa.SanityCheckFunctions&0)
	prog.Build()
	l := &Loaded{Prog: prog, Pkgs: pkgs, Overlay: overlay, FileHash: map[string]string{}, PkgDir: filepath.Clean(cfg.PkgDir)}
	l.Main = spkgs[0]
	l.MainPkg = pkgs[0]
	if l.Main == nil {
		return nil, fmt.Errorf("no SSA package for %s", pkgs[0].PkgPath)
	}
	// entries: //verif:entry annotations on harness functions
	for _, f := range pkgs[0].Syntax {
		fname := prog.Fset.Position(f.Pos()).Filename
		if !strings.Contains(filepath.Base(fname), "zz_verif_h_") {
			continue
		}
		for _, d := range f.Decls {
			fd, ok := d.(*ast.FuncDecl)
			if !ok || fd.Doc == nil {
				continue
			}
			for _, c := range fd.Doc.List {
				if strings.HasPrefix(c.Text, "//verif:entry") {
					eo, err := parseEntry(fd.Name.Name, strings.TrimPrefix(c.Text, "//verif:entry"))
					if err != nil {
						return nil, fmt.Errorf("%s: %v", fd.Name.Name, err)
					}
					l.Entries = append(l.Entries, eo)
				}
			}
		}
	}
	// hashes of the real source files of ebu packages that were loaded
	packages.Visit(pkgs, nil, func(p *packages.Package) {
		if !strings.HasPrefix(p.PkgPath, "github.com/jilio/ebu") {
			return
		}
		for _, gf := range p.GoFiles {
			if _, isOv := overlay[gf]; isOv && strings.HasPrefix(filepath.Base(gf), "zz_verif_") {
				continue
			}
			b, err := os.ReadFile(gf)
			if err == nil {
				l.FileHash[gf] = fmt.Sprintf("%x", sha256.Sum256(b))[:16]
			}
		}
	})
	return l, nil
}

var kvRe = regexp.MustCompile(`(\w+)=("([^"]*)"|\S+)`)

func parseEntry(name, rest string) (EntryOpts, error) {
	eo := EntryOpts{Name: name, Tier: "both", Budget: 400000, Preempt: 0, MaxGors: 8,
		Forbid: map[string]bool{"panic": true, "deadlock": true, "race": true}, Params: map[string]int64{}}
	for _, m := range kvRe.FindAllStringSubmatch(rest, -1) {
		k, v := m[1], m[2]
		if strings.HasPrefix(v, "\"") {
			v = m[3]
		}
		switch k {
		case "property":
			eo.Property = v
		case "tier":
			eo.Tier = v
		case "bounds":
			eo.Bounds = v
		case "cover":
			if v != "" {
				eo.Cover = strings.Split(v, ",")
			}
		case "forbid":
			eo.Forbid = map[string]bool{}
			for _, f := range strings.Split(v, ",") {
				if f != "" && f != "none" {
					eo.Forbid[f] = true
				}
			}
		case "allow":
			for _, f := range strings.Split(v, ",") {
				delete(eo.Forbid, f)
			}
		case "budget":
			n, err := strconv.ParseInt(v, 10, 64)
			if err != nil {
				return eo, err
			}
			eo.Budget = n
		case "preempt":
			n, err := strconv.Atoi(v)
			if err != nil {
				return eo, err
			}
			eo.Preempt = n
		case "conformance":
			eo.NoConformance = v == "off"
		case "numstr":
			eo.NoNumStr = v == "off"
		case "race":
			eo.Race = v == "on" || v == "true"
		case "gors":
			n, err := strconv.Atoi(v)
			if err != nil {
				return eo, err
			}
			eo.MaxGors = n
		default:
			// tier-qualified parameters: quick.N=3 is written N_quick=3
			n, err := strconv.ParseInt(v, 10, 64)
			if err != nil {
				return eo, fmt.Errorf("unknown entry option %s=%s", k, v)
			}
			eo.Params[k] = n
		}
	}
	return eo, nil
}

// resolveParams picks tier-specific parameters: X_quick / X_thorough override X.
func resolveParams(eo EntryOpts, tier string) EntryOpts {
	out := eo
	out.Params = map[string]int64{}
	for k, v := range eo.Params {
		if strings.HasSuffix(k, "_quick") || strings.HasSuffix(k, "_thorough") {
			continue
		}
		out.Params[k] = v
	}
	for k, v := range eo.Params {
		if strings.HasSuffix(k, "_"+tier) {
			base := strings.TrimSuffix(k, "_"+tier)
			switch base {
			case "preempt":
				out.Preempt = int(v)
			case "budget":
				out.Budget = v
			default:
				out.Params[base] = v
			}
		}
	}
	return out
}

func sortedHashes(m map[string]string) []string {
	var out []string
	for k, v := range m {
		out = append(out, k+"@"+v)
	}
	sort.Strings(out)
	return out
}
