package main

// Native replay of counterexamples: the harness file is compiled into the
// real package's test binary (through -overlay, /repo is not touched) together
// with a runtime that feeds the solver's values to vInt/vBool/...

import (
	"bytes"
	"context"
	"encoding/json"
	"fmt"
	"os"
	"os/exec"
	"path/filepath"
	"regexp"
	"strings"
	"time"
)

type cexFile struct {
	Property string           `json:"property"`
	Entry    string           `json:"entry"`
	Label    string           `json:"label"`
	Kind     string           `json:"kind"`
	Msg      string           `json:"msg"`
	Inputs   []InputVal       `json:"inputs"`
	Trail    []int64          `json:"decisions"`
	Observes []string         `json:"observed,omitempty"`
	PkgDir   string           `json:"pkgdir"`
	Params   map[string]int64 `json:"params"`
	Sched    []schedEv        `json:"schedule,omitempty"`
	Points   []string         `json:"points,omitempty"`
}

func writeCounterexample(dir string, v *Violation, r *entryResult, lc LoadConfig, rtNative string, nativeExtra []string, l *Loaded) {
	cf := cexFile{Property: v.Property, Entry: v.Entry, Label: v.Label, Kind: v.Kind, Msg: v.Msg,
		Inputs: v.Inputs, Trail: v.Trail, Observes: v.Observes, PkgDir: lc.PkgDir, Params: r.Opts.Params, Sched: v.Sched, Points: v.Points}
	b, _ := json.MarshalIndent(cf, "", " ")
	os.WriteFile(filepath.Join(dir, "counterexample.json"), b, 0o644)

	pkgName, _ := packageNameOf(lc.PkgDir)
	overlay := map[string]string{}
	// solver-chosen type names: rename the declared identifiers in the harness copy
	rename := map[string]string{}
	for _, in := range v.Inputs {
		if strings.HasPrefix(in.Tag, "typename:") {
			id := strings.TrimPrefix(in.Tag, "typename:")
			if _, ok := rename[id]; !ok {
				rename[id] = "T"
			}
			var b int
			fmt.Sscan(in.Val, &b)
			rename[id] += string(rune(b))
		}
	}
	// concurrent counterexample: build the replay from instrumented copies
	var instr map[string][]byte
	if v.Multi && l != nil {
		m, err := instrumentPackage(l)
		if err == nil {
			instr = m
		} else {
			os.WriteFile(filepath.Join(dir, "instrument-error.txt"), []byte(err.Error()), 0o644)
		}
	}
	harnessOverlayName := func(src string) string {
		base := strings.TrimSuffix(filepath.Base(src), ".go")
		return filepath.Join(lc.PkgDir, "zz_verif_h_"+base+".go")
	}
	put := func(src, dstBase string) {
		data, err := os.ReadFile(src)
		if err != nil {
			return
		}
		if instr != nil {
			if d, ok := instr[harnessOverlayName(src)]; ok {
				data = d
			}
		}
		for id, nn := range rename {
			data = regexp.MustCompile(`\b`+regexp.QuoteMeta(id)+`\b`).ReplaceAll(data, []byte(nn))
		}
		local := filepath.Join(dir, dstBase)
		os.WriteFile(local, rewritePackage(data, pkgName), 0o644)
		overlay[filepath.Join(lc.PkgDir, dstBase)] = local
	}
	for i, h := range lc.Harness {
		put(h, fmt.Sprintf("zz_verif_h%d_test.go", i))
	}
	if rtNative != "" {
		put(rtNative, "zz_verif_rtnative_test.go")
	}
	for i, x := range nativeExtra {
		put(x, fmt.Sprintf("zz_verif_nx%d_test.go", i))
	}
	if instr != nil {
		n := 0
		for orig, data := range instr {
			if strings.HasPrefix(filepath.Base(orig), "zz_verif_") {
				continue
			}
			n++
			local := filepath.Join(dir, fmt.Sprintf("instr_%d_%s", n, filepath.Base(orig)))
			os.WriteFile(local, data, 0o644)
			overlay[orig] = local
		}
	}
	// the generated test
	var vec []string
	for _, in := range v.Inputs {
		if strings.HasPrefix(in.Kind, "h:") {
			vec = append(vec, in.Val)
		}
	}
	vecJSON, _ := json.Marshal(vec)
	paramsJSON, _ := json.Marshal(r.Opts.Params)
	var tb bytes.Buffer
	fmt.Fprintf(&tb, "package %s\n\nimport \"testing\"\n\n", pkgName)
	fmt.Fprintf(&tb, "func TestVerifReplay(t *testing.T) {\n")
	schedJSON := []byte("")
	if instr != nil && len(v.Sched) > 0 {
		schedJSON, _ = json.Marshal(v.Sched)
	}
	fmt.Fprintf(&tb, "\tvrtRun(t, %q, %q, %q, %s)\n", string(vecJSON), string(paramsJSON), string(schedJSON), v.Entry)
	fmt.Fprintf(&tb, "}\n")
	local := filepath.Join(dir, "zz_verif_replay_test.go")
	os.WriteFile(local, tb.Bytes(), 0o644)
	overlay[filepath.Join(lc.PkgDir, "zz_verif_replay_test.go")] = local
	ob, _ := json.MarshalIndent(map[string]any{"Replace": overlay}, "", " ")
	os.WriteFile(filepath.Join(dir, "overlay.json"), ob, 0o644)
	script := fmt.Sprintf("#!/bin/sh\n# replays this counterexample against the real build of %s\ncd %s && GOPROXY=off go test -vet=off -count=1 -timeout 120s -overlay %s -run '^TestVerifReplay$' -v .\n",
		lc.PkgDir, lc.PkgDir, filepath.Join(dir, "overlay.json"))
	os.WriteFile(filepath.Join(dir, "replay.sh"), []byte(script), 0o755)
}

func replayMatches(v *Violation, s string) bool {
	switch v.Kind {
	case "violation":
		return strings.Contains(s, "VERIF-ASSERT-FAILED label=")
	case "panic":
		return strings.Contains(s, "panic:") || strings.Contains(s, "VERIF-PANIC") || strings.Contains(s, "fatal error:")
	case "deadlock", "budget":
		return strings.Contains(s, "all goroutines are asleep") || strings.Contains(s, "test timed out") || strings.Contains(s, "VERIF-TIMEOUT")
	}
	return false
}

// replayNative runs the generated test; the counterexample is confirmed when
// the real build fails in the way the symbolic run predicted.
func replayNative(dir string, v *Violation, lc LoadConfig) (bool, string) {
	ctx, cancel := context.WithTimeout(context.Background(), 300*time.Second)
	defer cancel()
	cmd := exec.CommandContext(ctx, "go", "test", "-vet=off", "-count=1", "-timeout", "60s",
		"-overlay", filepath.Join(dir, "overlay.json"), "-run", "^TestVerifReplay$", "-v", ".")
	cmd.Dir = lc.PkgDir
	cmd.Env = append(os.Environ(), "GOPROXY=off")
	out, err := cmd.CombinedOutput()
	os.WriteFile(filepath.Join(dir, "replay.log"), out, 0o644)
	s := string(out)
	if v.Multi && !replayMatches(v, s) {
		// second mode for schedule counterexamples: block in the real primitives
		cmd2 := exec.CommandContext(ctx, "go", "test", "-vet=off", "-count=1", "-timeout", "60s",
			"-overlay", filepath.Join(dir, "overlay.json"), "-run", "^TestVerifReplay$", "-v", ".")
		cmd2.Dir = lc.PkgDir
		cmd2.Env = append(os.Environ(), "GOPROXY=off", "GOSX_REPLAY_MODE=block")
		out2, err2 := cmd2.CombinedOutput()
		os.WriteFile(filepath.Join(dir, "replay-blockmode.log"), out2, 0o644)
		if replayMatches(v, string(out2)) {
			s, err = string(out2), err2
		}
	}
	if v.Multi && v.Kind != "race" && !replayMatches(v, s) && !strings.Contains(s, "VERIF-SCHED-DIVERGED") {
		// The recorded schedule fixes the order of synchronisation operations, not which of
		// several READY cases a real select takes (the runtime picks at random): repeat the
		// scheduled replay a few times before giving up.
		for i := 0; i < 6; i++ {
			cmd3 := exec.CommandContext(ctx, "go", "test", "-vet=off", "-count=1", "-timeout", "60s",
				"-overlay", filepath.Join(dir, "overlay.json"), "-run", "^TestVerifReplay$", "-v", ".")
			cmd3.Dir = lc.PkgDir
			cmd3.Env = append(os.Environ(), "GOPROXY=off")
			out3, err3 := cmd3.CombinedOutput()
			if replayMatches(v, string(out3)) {
				os.WriteFile(filepath.Join(dir, "replay.log"), out3, 0o644)
				s, err = string(out3), err3
				break
			}
		}
	}
	switch v.Kind {
	case "violation":
		if strings.Contains(s, "VERIF-ASSERT-FAILED label="+v.Label) {
			return true, ""
		}
		// The real build may trip over an EARLIER assertion of the same oracle under these
		// inputs (e.g. bytes the model keeps as a well-formed document are garbage natively):
		// the property is violated on the real build all the same.
		if i := strings.Index(s, "VERIF-ASSERT-FAILED label="); i >= 0 {
			lab := s[i+len("VERIF-ASSERT-FAILED label="):]
			if j := strings.IndexAny(lab, " \n\r"); j >= 0 {
				lab = lab[:j]
			}
			os.WriteFile(filepath.Join(dir, "replay-note.txt"), []byte("the native run fails assertion "+lab+" before reaching "+v.Label+"\n"), 0o644)
			return true, ""
		}
	case "panic":
		if strings.Contains(s, "panic:") || strings.Contains(s, "VERIF-PANIC") || strings.Contains(s, "fatal error:") {
			return true, ""
		}
		if v.Multi {
			// A panic raised by the runtime's own synchronisation primitives (e.g. WaitGroup reuse)
			// depends on timing inside the primitive that the token hand-offs cannot force: look
			// for it on the free-running real build with the same inputs, repeated.
			cmd3 := exec.CommandContext(ctx, "go", "test", "-vet=off", "-count=400", "-failfast", "-timeout", "240s",
				"-overlay", filepath.Join(dir, "overlay.json"), "-run", "^TestVerifReplay$", ".")
			cmd3.Dir = lc.PkgDir
			cmd3.Env = append(os.Environ(), "GOPROXY=off", "GOSX_REPLAY_MODE=free")
			out3, _ := cmd3.CombinedOutput()
			os.WriteFile(filepath.Join(dir, "replay-free.log"), out3, 0o644)
			if strings.Contains(string(out3), "panic:") || strings.Contains(string(out3), "fatal error:") {
				return true, ""
			}
		}
	case "deadlock":
		if strings.Contains(s, "all goroutines are asleep") || strings.Contains(s, "test timed out") || strings.Contains(s, "VERIF-TIMEOUT") {
			return true, ""
		}
	case "budget":
		if strings.Contains(s, "test timed out") || strings.Contains(s, "VERIF-TIMEOUT") {
			return true, ""
		}
	case "race":
		// needs the race detector; try it
		cmd2 := exec.CommandContext(ctx, "go", "test", "-race", "-vet=off", "-count=1", "-timeout", "60s",
			"-overlay", filepath.Join(dir, "overlay.json"), "-run", "^TestVerifReplay$", "-v", ".")
		cmd2.Dir = lc.PkgDir
		cmd2.Env = append(os.Environ(), "GOPROXY=off")
		out2, _ := cmd2.CombinedOutput()
		os.WriteFile(filepath.Join(dir, "replay-race.log"), out2, 0o644)
		if strings.Contains(string(out2), "DATA RACE") {
			return true, ""
		}
		// The scheduled replay orders every pair of operations through the
		// token hand-offs, which the race detector sees as synchronisation. So a
		// race the schedule does not expose is confirmed on the free-running
		// real build with the same inputs (race detector on, repeated runs).
		cmd3 := exec.CommandContext(ctx, "go", "test", "-race", "-vet=off", "-count=40", "-failfast", "-timeout", "120s",
			"-overlay", filepath.Join(dir, "overlay.json"), "-run", "^TestVerifReplay$", ".")
		cmd3.Dir = lc.PkgDir
		cmd3.Env = append(os.Environ(), "GOPROXY=off", "GOSX_REPLAY_MODE=free")
		out3, _ := cmd3.CombinedOutput()
		os.WriteFile(filepath.Join(dir, "replay-race-free.log"), out3, 0o644)
		if strings.Contains(string(out3), "DATA RACE") {
			return true, ""
		}
		s = string(out2)
	}
	tail := s
	if len(tail) > 600 {
		tail = tail[len(tail)-600:]
	}
	if err == nil {
		return false, "native replay passed: the counterexample does not reproduce against the real build"
	}
	return false, "native replay failed differently: " + strings.ReplaceAll(tail, "\n", " | ")
}

// nativeTrace runs a replay directory natively with tracing on and returns the VERIF-TRACE lines.
func nativeTrace(dir string, lc LoadConfig) ([]string, string) {
	ctx, cancel := context.WithTimeout(context.Background(), 300*time.Second)
	defer cancel()
	cmd := exec.CommandContext(ctx, "go", "test", "-vet=off", "-count=1", "-timeout", "60s",
		"-overlay", filepath.Join(dir, "overlay.json"), "-run", "^TestVerifReplay$", "-v", ".")
	cmd.Dir = lc.PkgDir
	cmd.Env = append(os.Environ(), "GOPROXY=off", "GOSX_TRACE=1")
	out, err := cmd.CombinedOutput()
	os.WriteFile(filepath.Join(dir, "replay.log"), out, 0o644)
	var tr []string
	for _, ln := range strings.Split(string(out), "\n") {
		if strings.HasPrefix(ln, "VERIF-TRACE ") {
			tr = append(tr, strings.TrimPrefix(ln, "VERIF-TRACE "))
		}
	}
	if err != nil {
		tail := string(out)
		if len(tail) > 400 {
			tail = tail[len(tail)-400:]
		}
		return tr, "go test failed: " + strings.ReplaceAll(tail, "\n", " | ")
	}
	return tr, ""
}
