package main

// gosx: bounded symbolic execution of go/ssa with an SMT back end.
//
//   gosx run -pkgdir /repo -harness a.go,b.go -rt decl.go -rtnative native.go \
//        -property C11 -tier quick -evidence /verif/evidence/C11.json

import (
	"encoding/json"
	"flag"
	"fmt"
	"go/ast"
	"go/token"
	"go/types"
	"os"
	"path/filepath"
	"runtime/debug"
	"runtime/pprof"
	"sort"
	"strings"
	"sync"
	"time"

	"golang.org/x/tools/go/ssa"
)

type KnownFinding struct {
	ID       string `json:"id"`
	Property string `json:"property"`
	Entry    string `json:"entry"`
	Label    string `json:"label"`
	What     string `json:"what"`
}

type KnownFile struct {
	Findings []KnownFinding `json:"findings"`
	Fixed    []string       `json:"fixed"`
}

type RunConfig struct {
	Solver    string
	TimeoutMs int
	Known     map[string]KnownFinding
	Verbose   bool
	Deadline  time.Time
	SolverLog string
	InitStd   []string
}

func NewEngine(l *Loaded, eo EntryOpts, rc RunConfig) (*Engine, error) {
	e := &Engine{
		prog:         l.Prog,
		mainPkg:      l.Main,
		harnessPkgs:  map[*ssa.Package]bool{l.Main: true},
		opts:         eo,
		known:        rc.Known,
		covers:       map[string]int{},
		stubsHit:     map[string]int{},
		encodedFns:   map[string]int{},
		fnIDs:        map[*ssa.Function]uint64{},
		redirects:    map[string]*ssa.Function{},
		initSet:      map[*ssa.Package]bool{},
		siteCache:    map[string]bool{},
		sitePosCache: map[token.Pos]bool{},
		pkgDir:       l.PkgDir,
		verbose:      rc.Verbose,
		deadline:     rc.Deadline,
	}
	e.entry = l.Main.Func(eo.Name)
	if e.entry == nil {
		return nil, fmt.Errorf("entry %s not found", eo.Name)
	}
	e.budget = eo.Budget
	e.pointTrace = os.Getenv("GOSX_POINT_TRACE") != ""
	e.noNumStr = eo.NoNumStr
	e.maxGors = eo.MaxGors
	e.raceOn = eo.Race || eo.Preempt > 0
	if rp := l.Prog.ImportedPackage("runtime"); rp != nil {
		if m := rp.Type("errorString"); m != nil {
			e.runtimeErrorString = m.Type()
		}
	}
	if rp := l.Prog.ImportedPackage("reflect"); rp != nil {
		if m := rp.Type("rtype"); m != nil {
			e.rtypePtr = types.NewPointer(m.Type())
		}
	}
	if e.rtypePtr == nil {
		e.rtypePtr = types.NewPointer(types.NewNamed(types.NewTypeName(0, nil, "rtype", nil), types.NewStruct(nil, nil), nil))
	}
	// packages whose initialisers are executed
	for _, p := range l.Prog.AllPackages() {
		if strings.HasPrefix(p.Pkg.Path(), "github.com/jilio/ebu") {
			e.initSet[p] = true
		}
	}
	for _, name := range rc.InitStd {
		if p := l.Prog.ImportedPackage(name); p != nil {
			e.initSet[p] = true
			e.initPkgs = append(e.initPkgs, p)
		}
	}
	e.initPkgs = append(e.initPkgs, l.Main)
	// redirects declared in model files: //verif:redirect <external name>
	for _, f := range l.MainPkg.Syntax {
		for _, d := range f.Decls {
			fd, ok := d.(*ast.FuncDecl)
			if !ok || fd.Doc == nil {
				continue
			}
			for _, c := range fd.Doc.List {
				if strings.HasPrefix(c.Text, "//verif:redirect ") {
					target := strings.TrimSpace(strings.TrimPrefix(c.Text, "//verif:redirect "))
					if fn := l.Main.Func(fd.Name.Name); fn != nil {
						e.redirects[target] = fn
					}
				}
			}
		}
	}
	e.installExternals()
	var logw *os.File
	if rc.SolverLog != "" {
		logw, _ = os.Create(rc.SolverLog + "." + eo.Name + ".smt2")
	}
	var err error
	if logw != nil {
		e.solver, err = NewSolver(rc.Solver, rc.TimeoutMs, logw)
	} else {
		e.solver, err = NewSolver(rc.Solver, rc.TimeoutMs, nil)
	}
	if err != nil {
		return nil, err
	}
	return e, nil
}

type entryResult struct {
	Opts         EntryOpts
	Stats        Stats
	Covers       map[string]int
	Violations   []*Violation
	KnownHits    []*Violation
	Samples      []map[string]any
	Stubs        map[string]int
	Encoded      map[string]int
	Inconclusive []string
	Solver       struct {
		Checks, Sat, Unsat, Unknown int
		TimeS                       float64
		Errors                      []string
	}
	WallS        float64
	PrepassPaths int
}

// exploreAll explores every entry with a shared pool of workers; subtrees are
// handed between workers as decision prefixes.
func exploreAll(l *Loaded, todo []EntryOpts, rc RunConfig, workers int) []*entryResult {
	p := newPool(workers)
	engines := make([][]*Engine, len(todo))
	errs := make([][]string, len(todo))
	var mu sync.Mutex
	start := time.Now()
	for i := range todo {
		p.put(&task{entry: i})
	}
	var wg sync.WaitGroup
	for w := 0; w < workers; w++ {
		wg.Add(1)
		go func() {
			defer wg.Done()
			var cur *Engine
			curIdx := -1
			for {
				t := p.get()
				if t == nil {
					break
				}
				if t.entry != curIdx {
					if cur != nil {
						cur.solver.Close()
					}
					e, err := NewEngine(l, todo[t.entry], rc)
					if err != nil {
						mu.Lock()
						errs[t.entry] = append(errs[t.entry], err.Error())
						mu.Unlock()
						cur, curIdx = nil, -1
						continue
					}
					e.pool = p
					e.entryIdx = t.entry
					cur, curIdx = e, t.entry
					mu.Lock()
					engines[t.entry] = append(engines[t.entry], e)
					mu.Unlock()
				}
				func() {
					defer func() {
						if r := recover(); r != nil {
							if ee, ok := r.(*engineError); ok {
								cur.noteInconclusive("engine: " + ee.msg)
							} else {
								cur.noteInconclusive(fmt.Sprintf("engine crash: %v", r))
							}
							p.killEntry(t.entry)
						}
					}()
					cur.ExploreTask(t)
				}()
			}
			if cur != nil {
				cur.solver.Close()
			}
		}()
	}
	wg.Wait()
	wall := time.Since(start).Seconds()
	results := make([]*entryResult, len(todo))
	for i, eo := range todo {
		res := &entryResult{Opts: eo, Covers: map[string]int{}, Stubs: map[string]int{}, Encoded: map[string]int{}}
		res.Stats.Forks = map[string]int{}
		res.Stats.KnownSeen = map[string]int{}
		res.Inconclusive = append(res.Inconclusive, errs[i]...)
		seenInc := map[string]bool{}
		for _, e := range engines[i] {
			st := e.stats
			res.Stats.Paths += st.Paths
			res.Stats.PathsOK += st.PathsOK
			res.Stats.Infeasible += st.Infeasible
			res.Stats.Instrs += st.Instrs
			res.Stats.Switches += st.Switches
			res.Stats.AssertQueries += st.AssertQueries
			res.Stats.AssertUnsat += st.AssertUnsat
			res.Stats.AssertSat += st.AssertSat
			res.Stats.FeasQueries += st.FeasQueries
			res.Stats.OverflowWraps += st.OverflowWraps
			if st.MaxPathInstrs > res.Stats.MaxPathInstrs {
				res.Stats.MaxPathInstrs = st.MaxPathInstrs
			}
			if st.MaxTrail > res.Stats.MaxTrail {
				res.Stats.MaxTrail = st.MaxTrail
			}
			for k, v := range st.Forks {
				res.Stats.Forks[k] += v
			}
			for k, v := range st.KnownSeen {
				res.Stats.KnownSeen[k] += v
			}
			for k, v := range e.covers {
				res.Covers[k] += v
			}
			for k, v := range e.stubsHit {
				res.Stubs[k] += v
			}
			for k, v := range e.encodedFns {
				res.Encoded[k] += v
			}
			res.Violations = append(res.Violations, e.violations...)
			for _, k := range e.knownHits {
				dup := false
				for _, o := range res.KnownHits {
					if o.Known == k.Known && o.Label == k.Label {
						dup = true
					}
				}
				if !dup {
					res.KnownHits = append(res.KnownHits, k)
				}
			}
			for _, sm := range e.samples {
				if len(res.Samples) < 3 {
					res.Samples = append(res.Samples, sm)
				}
			}
			for _, m := range e.inconclusive {
				if !seenInc[m] {
					seenInc[m] = true
					res.Inconclusive = append(res.Inconclusive, m)
				}
			}
			res.Solver.Checks += e.solver.NCheck
			res.Solver.Sat += e.solver.NSat
			res.Solver.Unsat += e.solver.NUnsat
			res.Solver.Unknown += e.solver.NUnknown
			res.Solver.TimeS += e.solver.Time.Seconds()
			res.Solver.Errors = append(res.Solver.Errors, e.solver.Errors...)
		}
		if len(res.Solver.Errors) > 0 {
			res.Inconclusive = append(res.Inconclusive, "solver error: "+res.Solver.Errors[0])
		}
		if len(res.Violations) > maxAlternatives {
			res.Violations = res.Violations[:maxAlternatives]
		}
		halted := p.stopped()
		if len(res.Violations) == 0 && len(res.Inconclusive) == 0 && !halted {
			for _, c := range eo.Cover {
				if res.Covers[c] == 0 {
					res.Inconclusive = append(res.Inconclusive, "VACUOUS: cover label "+c+" never reached")
				}
			}
			if res.Stats.PathsOK == 0 {
				res.Inconclusive = append(res.Inconclusive, "VACUOUS: no feasible path completed")
			}
		}
		res.WallS = wall
		results[i] = res
	}
	return results
}

func splitList(s string) []string {
	if s == "" {
		return nil
	}
	var out []string
	for _, p := range strings.Split(s, ",") {
		p = strings.TrimSpace(p)
		if p != "" {
			out = append(out, p)
		}
	}
	return out
}

func main() {
	if len(os.Args) < 2 {
		fmt.Fprintln(os.Stderr, "usage: gosx run|list [flags]")
		os.Exit(2)
	}
	cmd := os.Args[1]
	fs := flag.NewFlagSet(cmd, flag.ExitOnError)
	pkgDir := fs.String("pkgdir", "/repo", "directory of the package under test")
	harness := fs.String("harness", "", "comma-separated harness files")
	rt := fs.String("rt", "", "runtime declaration file (symbolic mode)")
	rtNative := fs.String("rtnative", "", "runtime implementation file (native replay)")
	models := fs.String("models", "", "comma-separated model files (symbolic mode only)")
	nativeExtra := fs.String("nativeextra", "", "comma-separated extra files compiled into native replays")
	extra := fs.String("extra", "", "extra package patterns to load")
	property := fs.String("property", "", "property id")
	tier := fs.String("tier", "quick", "quick|thorough")
	entryFilter := fs.String("entry", "", "only this entry (comma-separated)")
	evidence := fs.String("evidence", "", "evidence file to write")
	knownPath := fs.String("known", "", "known findings file")
	outDir := fs.String("out", "", "directory for replay artefacts")
	solver := fs.String("solver", "z3", "z3 | z3-new | cvc5")
	timeoutMs := fs.Int("solver-timeout-ms", 20000, "per-query solver timeout")
	workers := fs.Int("workers", 16, "parallel workers (each with its own solver)")
	verbose := fs.Bool("v", false, "verbose")
	maxSec := fs.Int("max-seconds", 0, "wall-clock limit for the whole run (0 = none)")
	solverLog := fs.String("solver-log", "", "prefix for SMT-LIB transcripts")
	noReplay := fs.Bool("no-replay", false, "do not replay counterexamples natively")
	initStd := fs.String("init-std", "errors,unicode/utf8,slices,maps,cmp", "std packages whose initialisers are executed (a run-time panic inside any other std package is inconclusive)")
	seed := fs.Int64("seed", 0, "seed (recorded; exploration is deterministic)")
	conformance := fs.Int("conformance", 0, "random concrete runs per entry executed both in the engine and natively (traces must agree)")
	stripImports := fs.String("strip-imports", "", "blank imports dropped from the analysed copy (comma-separated)")
	cpuprof := fs.String("cpuprofile", "", "write a CPU profile of the run to this file")
	fs.Parse(os.Args[2:])
	if os.Getenv("GOGC") == "" {
		// paths are short-lived re-executions: trade memory for fewer collections
		debug.SetGCPercent(400)
		debug.SetMemoryLimit(16 << 30) // collect harder instead of growing past 16 GiB
	}
	if *cpuprof != "" {
		if f, err := os.Create(*cpuprof); err == nil {
			pprof.StartCPUProfile(f)
			defer pprof.StopCPUProfile()
		}
	}

	start := time.Now()
	lc := LoadConfig{PkgDir: *pkgDir, Harness: splitList(*harness), RTDecl: *rt, Models: splitList(*models), ExtraPkgs: splitList(*extra), StripImports: splitList(*stripImports)}
	l, err := Load(lc)
	if err != nil {
		fmt.Fprintln(os.Stderr, "INCONCLUSIVE load:", err)
		os.Exit(2)
	}
	loadS := time.Since(start).Seconds()
	if cmd == "list" {
		for _, eo := range l.Entries {
			fmt.Printf("%s property=%s tier=%s bounds=%q\n", eo.Name, eo.Property, eo.Tier, eo.Bounds)
		}
		return
	}
	rc := RunConfig{Solver: *solver, TimeoutMs: *timeoutMs, Verbose: *verbose, SolverLog: *solverLog, InitStd: splitList(*initStd)}
	if *maxSec > 0 {
		rc.Deadline = start.Add(time.Duration(*maxSec) * time.Second)
	}
	rc.Known = map[string]KnownFinding{}
	var knownAll KnownFile
	if *knownPath != "" {
		if b, err := os.ReadFile(*knownPath); err == nil {
			if err := json.Unmarshal(b, &knownAll); err != nil {
				fmt.Fprintln(os.Stderr, "INCONCLUSIVE known findings file:", err)
				os.Exit(2)
			}
			for _, k := range knownAll.Findings {
				rc.Known[k.ID] = k
			}
		}
	}
	// select entries
	want := map[string]bool{}
	for _, n := range splitList(*entryFilter) {
		want[n] = true
	}
	var todo []EntryOpts
	for _, eo := range l.Entries {
		if *property != "" && eo.Property != *property {
			continue
		}
		if len(want) > 0 && !want[eo.Name] {
			continue
		}
		if eo.Tier != "both" && eo.Tier != *tier {
			continue
		}
		r := resolveParams(eo, *tier)
		// iterative context bounding: cheaper passes with fewer preemptions run
		// first, so that shallow schedule bugs are reported quickly
		for p := 0; p < r.Preempt; p++ {
			pre := r
			pre.Preempt = p
			pre.Prepass = true
			pre.Cover = nil
			todo = append(todo, pre)
		}
		todo = append(todo, r)
	}
	if len(todo) == 0 {
		fmt.Fprintf(os.Stderr, "INCONCLUSIVE no entries for property=%s tier=%s\n", *property, *tier)
		os.Exit(2)
	}
	results := exploreAll(l, todo, rc, *workers)
	// fold pre-passes into their entry
	{
		var merged []*entryResult
		for _, r := range results {
			if r.Opts.Prepass {
				continue
			}
			merged = append(merged, r)
		}
		for _, r := range results {
			if !r.Opts.Prepass {
				continue
			}
			for _, m := range merged {
				if m.Opts.Name == r.Opts.Name {
					m.PrepassPaths += r.Stats.Paths
					m.Stats.Instrs += r.Stats.Instrs
					if len(m.Violations) == 0 {
						m.Violations = append(m.Violations, r.Violations...)
					}
					for _, x := range r.Inconclusive {
						if !strings.HasPrefix(x, "VACUOUS") {
							m.Inconclusive = append(m.Inconclusive, x)
						}
					}
				}
			}
		}
		results = merged
	}
	if *verbose {
		for _, r := range results {
			fmt.Fprintf(os.Stderr, "[gosx] %s: %d paths (%d ok, %d infeasible), %d instrs, %d checks, solver %.1fs\n",
				r.Opts.Name, r.Stats.Paths, r.Stats.PathsOK, r.Stats.Infeasible, r.Stats.Instrs, r.Solver.Checks, r.Solver.TimeS)
		}
	}

	// report
	exit := 0
	replays := 0
	confOK, confBad := 0, 0
	if *conformance > 0 && *outDir != "" {
		for _, r := range results {
			if len(r.Violations) > 0 || len(r.Inconclusive) > 0 || r.Opts.NoConformance {
				continue
			}
			ok, bad, msgs := runConformance(l, r.Opts, rc, lc, *conformance, *seed, *outDir, *rtNative, splitList(*nativeExtra))
			confOK += ok
			confBad += bad
			for _, m := range msgs {
				r.Inconclusive = append(r.Inconclusive, m)
			}
		}
		replays += confOK
	}
	var violLines []string
	for _, r := range results {
		for _, k := range r.KnownHits {
			kf := rc.Known[k.Known]
			fmt.Printf("KNOWN-FINDING: property=%s %s [%s, entry %s, label %s]\n", r.Opts.Property, kf.What, kf.ID, r.Opts.Name, k.Label)
		}
	}
	for _, r := range results {
		// several counterexamples of one entry are alternatives: the first that reproduces natively is the
		// one reported; only if none does is the entry UNCONFIRMED
		anyConfirmed := false
		var unconfirmed []string
		for vi, v := range r.Violations {
			if anyConfirmed {
				break
			}
			dir := ""
			confirmed := false
			detail := ""
			if *outDir != "" {
				dir = filepath.Join(*outDir, r.Opts.Property, fmt.Sprintf("%s-%d", r.Opts.Name, len(violLines)+len(unconfirmed)))
				os.MkdirAll(dir, 0o755)
				writeCounterexample(dir, v, r, lc, *rtNative, splitList(*nativeExtra), l)
				if !*noReplay {
					confirmed, detail = replayNative(dir, v, lc)
					replays++
				}
			}
			if confirmed || *noReplay {
				anyConfirmed = true
				violLines = append(violLines, fmt.Sprintf("VIOLATION property=%s replay=%s", r.Opts.Property, dir))
				fmt.Printf("  entry=%s label=%s kind=%s: %s\n", r.Opts.Name, v.Label, v.Kind, v.Msg)
				for _, in := range v.Inputs {
					fmt.Printf("    %s (%s %s) = %s\n", in.Name, in.Kind, in.Tag, in.Val)
				}
				if exit != 1 {
					exit = 1
				}
			} else {
				msg := fmt.Sprintf("UNCONFIRMED property=%s entry=%s label=%s kind=%s: %s (replay dir %s; counterexample %d of %d)\n  %s\n",
					r.Opts.Property, r.Opts.Name, v.Label, v.Kind, v.Msg, dir, vi+1, len(r.Violations), detail)
				for _, in := range v.Inputs {
					msg += fmt.Sprintf("    %s (%s %s) = %s\n", in.Name, in.Kind, in.Tag, in.Val)
				}
				unconfirmed = append(unconfirmed, msg)
			}
		}
		if !anyConfirmed && len(unconfirmed) > 0 {
			for _, m := range unconfirmed {
				fmt.Print(m)
			}
			if exit == 0 {
				exit = 2
			}
		}
		for _, m := range r.Inconclusive {
			fmt.Printf("INCONCLUSIVE property=%s entry=%s: %s\n", r.Opts.Property, r.Opts.Name, m)
			if exit == 0 {
				exit = 2
			}
		}
	}
	for _, vl := range violLines {
		fmt.Println(vl)
	}
	if *evidence != "" {
		if err := writeEvidence(*evidence, *property, *tier, *seed, l, results, loadS, time.Since(start).Seconds(), replays, len(violLines), rc); err != nil {
			fmt.Fprintln(os.Stderr, "cannot write evidence:", err)
			if exit == 0 {
				exit = 2
			}
		}
	}
	if exit == 0 {
		total := 0
		for _, r := range results {
			total += r.Stats.Paths
		}
		fmt.Printf("OK property=%s tier=%s entries=%d paths=%d wall=%.1fs\n", *property, *tier, len(results), total, time.Since(start).Seconds())
	}
	pprof.StopCPUProfile()
	if mp := os.Getenv("GOSX_MEMPROFILE"); mp != "" {
		if f, err := os.Create(mp); err == nil {
			pprof.WriteHeapProfile(f)
			f.Close()
		}
	}
	os.Exit(exit)
}

// runConformance: k random concrete runs of one entry, in the engine and natively; their
// assertion/observation traces must be identical.
func runConformance(l *Loaded, eo EntryOpts, rc RunConfig, lc LoadConfig, k int, seed int64, outDir, rtNative string, nativeExtra []string) (ok, bad int, msgs []string) {
	e, err := NewEngine(l, eo, rc)
	if err != nil {
		return 0, 1, []string{"conformance: " + err.Error()}
	}
	defer e.solver.Close()
	var runs []ConfRun
	func() {
		defer func() {
			if r := recover(); r != nil {
				msgs = append(msgs, fmt.Sprintf("conformance: engine error in concrete mode: %v", r))
			}
		}()
		runs = e.RunConformance(k, seed+1)
	}()
	for i, run := range runs {
		if os.Getenv("GOSX_CONF_VERBOSE") != "" {
			fmt.Printf("[conformance %s run %d] %s | inputs %v | %s\n", eo.Name, i, run.Result, run.Inputs, strings.Join(run.Trace, " "))
		}
		if run.Result != "ok" {
			bad++
			msgs = append(msgs, fmt.Sprintf("conformance run %d of %s: engine outcome %s (inputs %v; trace %s)", i, eo.Name, run.Result, run.Inputs, strings.Join(run.Trace, " ")))
			continue
		}
		dir := filepath.Join(outDir, eo.Property, fmt.Sprintf("conf-%s-%d", eo.Name, i))
		os.RemoveAll(dir)
		os.MkdirAll(dir, 0o755)
		v := &Violation{Entry: eo.Name, Property: eo.Property, Label: "conformance", Kind: "conformance", Inputs: run.Inputs, Sched: run.Sched, Multi: run.Multi}
		writeCounterexample(dir, v, &entryResult{Opts: eo}, lc, rtNative, nativeExtra, l)
		nat, nerr := nativeTrace(dir, lc)
		for try := 0; run.Multi && try < 3 && (nerr != "" || strings.Join(nat, "\n") != strings.Join(run.Trace, "\n")); try++ {
			// which ready case a real select takes, and timing inside the runtime's own primitives,
			// are not fixed by the recorded schedule: a concurrent run gets a few more attempts
			nat, nerr = nativeTrace(dir, lc)
		}
		if nerr != "" {
			bad++
			msgs = append(msgs, fmt.Sprintf("conformance run %d of %s: native run failed: %s (dir %s)", i, eo.Name, nerr, dir))
			continue
		}
		if strings.Join(nat, "\n") != strings.Join(run.Trace, "\n") {
			bad++
			msgs = append(msgs, fmt.Sprintf("conformance mismatch in %s run %d (dir %s): engine trace %d items, native %d items; first difference at %d", eo.Name, i, dir, len(run.Trace), len(nat), firstDiff(run.Trace, nat)))
			os.WriteFile(filepath.Join(dir, "engine-trace.txt"), []byte(strings.Join(run.Trace, "\n")), 0o644)
			os.WriteFile(filepath.Join(dir, "native-trace.txt"), []byte(strings.Join(nat, "\n")), 0o644)
			continue
		}
		ok++
		os.RemoveAll(dir)
	}
	return
}

func firstDiff(a, b []string) int {
	for i := 0; i < len(a) && i < len(b); i++ {
		if a[i] != b[i] {
			return i
		}
	}
	if len(a) < len(b) {
		return len(a)
	}
	return len(b)
}

func writeEvidence(path, property, tier string, seed int64, l *Loaded, results []*entryResult, loadS, wallS float64, replays, nviol int, rc RunConfig) error {
	states, transitions := 0, int64(0)
	var samples []any
	fns := map[string]int{}
	stubs := map[string]int{}
	covers := map[string]int{}
	forks := map[string]int{}
	var entries []map[string]any
	q := map[string]any{}
	checks, sat, unsat, unknown, aq, au, as, fq := 0, 0, 0, 0, 0, 0, 0, 0
	solverT := 0.0
	var known []string
	var inconc []string
	maxInstr := int64(0)
	for _, r := range results {
		states += r.Stats.PathsOK
		transitions += r.Stats.Instrs
		for _, s := range r.Samples {
			if len(samples) < 8 {
				samples = append(samples, s)
			}
		}
		for k, v := range r.Encoded {
			fns[k] += v
		}
		for k, v := range r.Stubs {
			stubs[k] += v
		}
		for k, v := range r.Covers {
			covers[r.Opts.Name+":"+k] += v
		}
		for k, v := range r.Stats.Forks {
			forks[k] += v
		}
		checks += r.Solver.Checks
		sat += r.Solver.Sat
		unsat += r.Solver.Unsat
		unknown += r.Solver.Unknown
		solverT += r.Solver.TimeS
		aq += r.Stats.AssertQueries
		au += r.Stats.AssertUnsat
		as += r.Stats.AssertSat
		fq += r.Stats.FeasQueries
		if r.Stats.MaxPathInstrs > maxInstr {
			maxInstr = r.Stats.MaxPathInstrs
		}
		for id := range r.Stats.KnownSeen {
			known = append(known, id)
		}
		for _, m := range r.Inconclusive {
			inconc = append(inconc, r.Opts.Name+": "+m)
		}
		entries = append(entries, map[string]any{
			"entry": r.Opts.Name, "bounds": r.Opts.Bounds, "params": r.Opts.Params, "preemption_bound": r.Opts.Preempt,
			"paths": r.Stats.Paths, "paths_completed": r.Stats.PathsOK, "paths_infeasible": r.Stats.Infeasible,
			"instructions": r.Stats.Instrs, "solver_checks": r.Solver.Checks, "wall_s": round2(r.WallS),
			"assert_queries": r.Stats.AssertQueries, "budget": r.Opts.Budget, "paths_in_lower_preemption_prepasses": r.PrepassPaths,
		})
	}
	q["check_sat_total"] = checks
	q["sat"] = sat
	q["unsat"] = unsat
	q["unknown"] = unknown
	q["assertion_queries"] = aq
	q["assertion_unsat"] = au
	q["assertion_sat"] = as
	q["feasibility_queries"] = fq
	if states == 0 {
		states = 0
	}
	if len(samples) == 0 {
		samples = append(samples, map[string]any{"note": "no completed path"})
	}
	sort.Strings(known)
	var stubList []string
	for _, k := range sortedKeys(stubs) {
		stubList = append(stubList, k)
	}
	assumptions := []string{
		"bounded: holds for every value of the symbolic inputs within the bounds listed per entry; nothing is claimed outside them",
		"standard-library boundary replaced by the stubs/models listed under coverage.stubs_hit (contracts in DESIGN.md §2.5)",
		"map iteration follows insertion order; strings <= 2^20 bytes; signed Go ints are SMT Ints with solver-checked wrap-around",
		"solver: " + rc.Solver + " (incremental, one process per entry); unknown/timeouts are reported as INCONCLUSIVE, never as a pass",
	}
	ev := map[string]any{
		"property_id": property,
		"tier":        tier,
		"seed":        seed,
		"level":       "model_checking",
		"wall_s":      round2(wallS),
		"violations":  nviol,
		"assumptions": assumptions,
		"coverage": map[string]any{
			"states":                        states,
			"transitions":                   transitions,
			"traces_validated_against_impl": replays,
			"samples":                       samples,
			"exhaustive":                    len(inconc) == 0,
			"explanation":                   "states = feasible paths of the harness completed (each path is a symbolic execution covering all input values satisfying its path condition); transitions = SSA instructions executed symbolically; every vAssert on every path discharged by the SMT solver (assertion_unsat) ",
			"functions_encoded":             sortedKeys(fns),
			"source_files":                  sortedHashes(l.FileHash),
			"entries":                       entries,
			"queries":                       q,
			"solver_time_s":                 round2(solverT),
			"load_and_ssa_build_s":          round2(loadS),
			"forks":                         forks,
			"stubs_hit":                     stubList,
			"cover_labels":                  covers,
			"max_path_instrs":               maxInstr,
			"known_findings_seen":           known,
			"inconclusive":                  inconc,
		},
	}
	b, err := json.MarshalIndent(ev, "", " ")
	if err != nil {
		return err
	}
	os.MkdirAll(filepath.Dir(path), 0o755)
	return os.WriteFile(path, b, 0o644)
}

func round2(f float64) float64 { return float64(int64(f*100+0.5)) / 100 }
