package main

// One incremental SMT solver process (z3 -in), driven over a pipe.

import (
	"bufio"
	"fmt"
	"io"
	"math/big"
	"os/exec"
	"strconv"
	"strings"
	"time"
)

type SatResult int

const (
	Sat SatResult = iota
	Unsat
	Unknown
)

func (r SatResult) String() string { return [...]string{"sat", "unsat", "unknown"}[r] }

type Solver struct {
	name     string
	cmd      *exec.Cmd
	in       io.WriteCloser
	w        *bufio.Writer
	out      *bufio.Reader
	level    int
	declared map[string]Sort
	// statistics
	NCheck   int
	NSat     int
	NUnsat   int
	NUnknown int
	Time     time.Duration
	Errors   []string
	log      io.Writer
	// per-query limit the process was started with, and how often a query was asked again with a longer one
	timeoutMs int
	Retries   int
}

func solverArgv(name string, timeoutMs int) []string {
	switch name {
	case "z3", "z3-new":
		return []string{name, "-in", fmt.Sprintf("-t:%d", timeoutMs)}
	case "cvc5":
		return []string{"cvc5", "--incremental", "--produce-models", "--lang=smt2", fmt.Sprintf("--tlimit-per=%d", timeoutMs)}
	}
	return []string{name, "-in"}
}

func NewSolver(name string, timeoutMs int, log io.Writer) (*Solver, error) {
	argv := solverArgv(name, timeoutMs)
	cmd := exec.Command(argv[0], argv[1:]...)
	in, err := cmd.StdinPipe()
	if err != nil {
		return nil, err
	}
	outp, err := cmd.StdoutPipe()
	if err != nil {
		return nil, err
	}
	cmd.Stderr = nil
	if err := cmd.Start(); err != nil {
		return nil, err
	}
	s := &Solver{name: name, cmd: cmd, in: in, w: bufio.NewWriterSize(in, 1<<16), out: bufio.NewReaderSize(outp, 1<<16), declared: map[string]Sort{}, log: log, timeoutMs: timeoutMs}
	s.prelude()
	return s, nil
}

// Reset returns the solver to its initial state (no assertions, no declarations).
func (s *Solver) Reset() {
	s.send("(reset)")
	s.level = 0
	s.declared = map[string]Sort{}
	s.prelude()
}

func (s *Solver) prelude() (*Solver, error) {
	name := s.name
	s.send("(set-option :print-success false)")
	s.send("(set-option :produce-models true)")
	if name == "cvc5" {
		s.send("(set-logic ALL)")
		s.send("(set-option :global-declarations true)")
	} else {
		s.send("(set-option :global-declarations true)")
	}
	// uninterpreted rank function used by harnesses to assume acyclicity
	s.send("(declare-fun vrank (String) Int)")
	return s, nil
}

func (s *Solver) Close() {
	if s == nil || s.cmd == nil {
		return
	}
	s.w.Flush()
	s.in.Close()
	s.cmd.Process.Kill()
	s.cmd.Wait()
}

func (s *Solver) send(line string) {
	if s.log != nil {
		fmt.Fprintln(s.log, line)
	}
	s.w.WriteString(line)
	s.w.WriteByte('\n')
}

// readSexp reads one complete answer: either an atom line or a balanced s-expression.
func (s *Solver) readSexp() string {
	s.w.Flush()
	var sb strings.Builder
	depth := 0
	started := false
	inStr := false
	for {
		c, err := s.out.ReadByte()
		if err != nil {
			panic(engineErr("solver %s died: %v (partial %q)", s.name, err, sb.String()))
		}
		if !started {
			if c == ' ' || c == '\n' || c == '\r' || c == '\t' {
				continue
			}
			started = true
		}
		sb.WriteByte(c)
		if inStr {
			if c == '"' {
				inStr = false
			}
			continue
		}
		switch c {
		case '"':
			inStr = true
		case '(':
			depth++
		case ')':
			depth--
			if depth == 0 {
				return sb.String()
			}
		case '\n':
			if depth == 0 {
				return strings.TrimSpace(sb.String())
			}
		}
	}
}

func (s *Solver) declare(t *Term) {
	for name, v := range t.vars {
		if so, ok := s.declared[name]; ok {
			if so != v.Sort {
				panic(engineErr("variable %s redeclared with sort %s (was %s)", name, v.Sort, so))
			}
			continue
		}
		s.declared[name] = v.Sort
		s.send(fmt.Sprintf("(declare-const %s %s)", name, v.Sort))
	}
}

func (s *Solver) Push() {
	s.send("(push 1)")
	s.level++
}

func (s *Solver) Pop(n int) {
	if n <= 0 {
		return
	}
	s.send(fmt.Sprintf("(pop %d)", n))
	s.level -= n
}

func (s *Solver) PopTo(level int) { s.Pop(s.level - level) }

func (s *Solver) Assert(t *Term) {
	if t.Sort.K != SBool {
		panic(engineErr("assert of non-bool %s", t.S))
	}
	s.declare(t)
	s.send("(assert " + t.S + ")")
}

// Check decides the current assertion stack. An `unknown` that comes from the per-query time limit (a loaded
// machine is enough) is asked once more with six times the limit before it is reported: an unknown ends the run
// as INCONCLUSIVE, which must not depend on how busy the machine is.
func (s *Solver) Check() SatResult {
	r := s.checkOnce()
	if r == Unknown && len(s.Errors) == 0 && s.timeoutMs > 0 && (s.name == "z3" || s.name == "z3-new") {
		s.send(fmt.Sprintf("(set-option :timeout %d)", 6*s.timeoutMs))
		s.NUnknown--
		s.NCheck--
		s.Retries++
		r = s.checkOnce()
		s.send(fmt.Sprintf("(set-option :timeout %d)", s.timeoutMs))
	}
	return r
}

func (s *Solver) checkOnce() SatResult {
	start := time.Now()
	s.send("(check-sat)")
	var r SatResult
	for {
		ans := s.readSexp()
		if strings.HasPrefix(ans, "(error") {
			s.Errors = append(s.Errors, ans)
			continue
		}
		switch ans {
		case "sat":
			r = Sat
			s.NSat++
		case "unsat":
			r = Unsat
			s.NUnsat++
		default:
			r = Unknown
			s.NUnknown++
		}
		break
	}
	s.NCheck++
	s.Time += time.Since(start)
	if len(s.Errors) > 0 {
		// an assertion may have been dropped: the answer cannot be trusted
		return Unknown
	}
	return r
}

// ModelValue is the value of a variable in a model.
type ModelValue struct {
	Sort Sort
	I    *big.Int
	B    bool
	S    string
}

func (m ModelValue) String() string {
	switch m.Sort.K {
	case SBool:
		return strconv.FormatBool(m.B)
	case SStr:
		return strconv.Quote(m.S)
	}
	return m.I.String()
}

// GetValues queries the model for the given terms (after a sat answer).
func (s *Solver) GetValues(ts []*Term) []ModelValue {
	out := make([]ModelValue, len(ts))
	// chunk to keep lines manageable
	for i := 0; i < len(ts); i += 50 {
		j := i + 50
		if j > len(ts) {
			j = len(ts)
		}
		var sb strings.Builder
		sb.WriteString("(get-value (")
		for _, t := range ts[i:j] {
			s.declare(t)
			sb.WriteString(t.S)
			sb.WriteByte(' ')
		}
		sb.WriteString("))")
		s.send(sb.String())
		ans := s.readSexp()
		if strings.HasPrefix(ans, "(error") {
			panic(engineErr("get-value: %s", ans))
		}
		vals := parseGetValue(ans)
		if len(vals) != j-i {
			panic(engineErr("get-value: expected %d values, got %d in %s", j-i, len(vals), ans))
		}
		for k, v := range vals {
			out[i+k] = parseModelValue(v, ts[i+k].Sort)
		}
	}
	return out
}

// ---- tiny s-expression parser for get-value answers

type sexp struct {
	atom string
	list []*sexp
	isL  bool
}

func parseSexp(s string) *sexp {
	p := &sexpParser{s: s}
	return p.parse()
}

type sexpParser struct {
	s string
	i int
}

func (p *sexpParser) skip() {
	for p.i < len(p.s) && (p.s[p.i] == ' ' || p.s[p.i] == '\n' || p.s[p.i] == '\t' || p.s[p.i] == '\r') {
		p.i++
	}
}

func (p *sexpParser) parse() *sexp {
	p.skip()
	if p.i >= len(p.s) {
		return nil
	}
	if p.s[p.i] == '(' {
		p.i++
		n := &sexp{isL: true}
		for {
			p.skip()
			if p.i >= len(p.s) {
				return n
			}
			if p.s[p.i] == ')' {
				p.i++
				return n
			}
			n.list = append(n.list, p.parse())
		}
	}
	if p.s[p.i] == '"' {
		j := p.i + 1
		for j < len(p.s) {
			if p.s[j] == '"' {
				if j+1 < len(p.s) && p.s[j+1] == '"' {
					j += 2
					continue
				}
				break
			}
			j++
		}
		a := p.s[p.i : j+1]
		p.i = j + 1
		return &sexp{atom: a}
	}
	j := p.i
	for j < len(p.s) && !strings.ContainsRune(" \n\t\r()", rune(p.s[j])) {
		j++
	}
	a := p.s[p.i:j]
	p.i = j
	return &sexp{atom: a}
}

func parseGetValue(ans string) []*sexp {
	root := parseSexp(ans)
	var out []*sexp
	if root == nil {
		return nil
	}
	for _, pair := range root.list {
		if pair.isL && len(pair.list) == 2 {
			out = append(out, pair.list[1])
		}
	}
	return out
}

func unescapeSMTString(a string) string {
	a = a[1 : len(a)-1]
	a = strings.ReplaceAll(a, `""`, `"`)
	var sb strings.Builder
	for i := 0; i < len(a); i++ {
		if a[i] == '\\' && i+1 < len(a) && a[i+1] == 'u' {
			// \u{X..} or \uXXXX
			if i+2 < len(a) && a[i+2] == '{' {
				j := strings.IndexByte(a[i:], '}')
				if j > 0 {
					v, err := strconv.ParseUint(a[i+3:i+j], 16, 32)
					if err == nil {
						if v < 256 {
							sb.WriteByte(byte(v))
						} else {
							sb.WriteRune(rune(v))
						}
						i += j
						continue
					}
				}
			} else if i+5 < len(a) {
				v, err := strconv.ParseUint(a[i+2:i+6], 16, 32)
				if err == nil {
					if v < 256 {
						sb.WriteByte(byte(v))
					} else {
						sb.WriteRune(rune(v))
					}
					i += 5
					continue
				}
			}
		}
		if a[i] == '\\' && i+3 < len(a) && a[i+1] == 'x' {
			v, err := strconv.ParseUint(a[i+2:i+4], 16, 8)
			if err == nil {
				sb.WriteByte(byte(v))
				i += 3
				continue
			}
		}
		sb.WriteByte(a[i])
	}
	return sb.String()
}

func parseModelValue(v *sexp, sort Sort) ModelValue {
	mv := ModelValue{Sort: sort}
	switch sort.K {
	case SBool:
		mv.B = v.atom == "true"
	case SInt:
		mv.I = parseIntSexp(v)
	case SBV:
		mv.I = new(big.Int)
		if v.isL {
			// (_ bvN w)
			if len(v.list) == 3 && strings.HasPrefix(v.list[1].atom, "bv") {
				mv.I.SetString(v.list[1].atom[2:], 10)
			}
		} else if strings.HasPrefix(v.atom, "#x") {
			mv.I.SetString(v.atom[2:], 16)
		} else if strings.HasPrefix(v.atom, "#b") {
			mv.I.SetString(v.atom[2:], 2)
		}
	case SStr:
		if !v.isL && strings.HasPrefix(v.atom, "\"") {
			mv.S = unescapeSMTString(v.atom)
		}
	}
	return mv
}

func parseIntSexp(v *sexp) *big.Int {
	r := new(big.Int)
	if v.isL {
		if len(v.list) == 2 && v.list[0].atom == "-" {
			r = parseIntSexp(v.list[1])
			return r.Neg(r)
		}
		return r
	}
	r.SetString(v.atom, 10)
	return r
}
