package main

// JSON tree model for encoding/json.Marshal / Unmarshal (DESIGN A.6).
// Document bytes are represented as the one-element slice []Value{*Doc}.
// Concrete byte slices given to Unmarshal are parsed with the host's
// encoding/json into the same tree type.

import (
	"bytes"
	"encoding/json"
	"fmt"
	"go/token"
	"go/types"
	"reflect"
	"sort"
	"strconv"
	"strings"
)

type docKind int

const (
	DNull docKind = iota
	DBool
	DNum
	DStr
	DArr
	DObj
	DSym // arbitrary document (lazily materialised)
)

type Doc struct {
	id    int
	kind  docKind
	keys  []string
	vals  []*Doc
	elems []*Doc
	leaf  Value
	isInt bool // DNum: literal is an integer
	// DSym
	valid    Value // bool or *Term: document is well-formed JSON
	symKind  docKind
	decided  bool
	kindT    *Term           // symbolic kind in [0,5], refined lazily
	absent   map[string]bool // member names assumed absent (stated bound of the harness)
	children map[string]*Doc
	present  map[string]Value
	tag      string
	lenV     Value
}

func (e *Engine) newDoc(k docKind) *Doc {
	e.docSeq++
	return &Doc{id: e.docSeq, kind: k}
}

func docSlice(d *Doc) []Value { return []Value{d} }

func asDoc(bs []Value) (*Doc, bool) {
	if len(bs) == 1 {
		if d, ok := bs[0].(*Doc); ok {
			return d, true
		}
	}
	return nil, false
}

func (e *Engine) docLen(d *Doc) Value {
	if d.lenV == nil && e.concrete {
		// concrete (conformance) runs: any positive length; the native side has the real one,
		// a harness that depends on more than "non-empty" shows up as a trace mismatch
		d.lenV = e.ts.Int(2)
	}
	if d.lenV == nil {
		t := e.freshAux("doclen", sortInt)
		e.assumeTermAlways(e.ts.And(e.ts.mk(sortBool, "<=", e.ts.Int(1), t), e.ts.mk(sortBool, "<=", t, e.ts.Int(1<<30))))
		d.lenV = t
	}
	return d.lenV
}

// assumeTermAlways asserts a definitional fact even while replaying a prefix
// is not needed (the fact was asserted at its level the first time), so this
// is the same as assumeTerm.
func (e *Engine) assumeTermAlways(t *Term) { e.assumeTerm(t) }

// ---- structural equality of documents

func (e *Engine) docEq(a, b *Doc) Value {
	if a == b {
		return true
	}
	if a.kind == DSym || b.kind == DSym {
		return a == b
	}
	if a.kind != b.kind {
		return false
	}
	switch a.kind {
	case DNull:
		return true
	case DBool, DNum, DStr:
		if _, ok := a.leaf.(float64); ok {
			bf, ok2 := b.leaf.(float64)
			return ok2 && bf == a.leaf.(float64)
		}
		if _, ok := b.leaf.(float64); ok {
			return false
		}
		return e.scalarEqLoose(a.leaf, b.leaf)
	case DArr:
		if len(a.elems) != len(b.elems) {
			return false
		}
		var acc Value = true
		for i := range a.elems {
			acc = e.andV(acc, e.docEq(a.elems[i], b.elems[i]))
		}
		return acc
	case DObj:
		if len(a.keys) != len(b.keys) {
			return false
		}
		var acc Value = true
		for i := range a.keys {
			if a.keys[i] != b.keys[i] {
				return false
			}
			acc = e.andV(acc, e.docEq(a.vals[i], b.vals[i]))
		}
		return acc
	}
	return false
}

// scalarEqLoose compares numeric leaves that may differ in signedness.
func (e *Engine) scalarEqLoose(x, y Value) Value {
	if xi, ok := x.(int64); ok {
		if yu, ok := y.(uint64); ok {
			return xi >= 0 && uint64(xi) == yu
		}
	}
	if xu, ok := x.(uint64); ok {
		if yi, ok := y.(int64); ok {
			return yi >= 0 && uint64(yi) == xu
		}
	}
	return e.scalarEq(x, y)
}

// ---- Marshal

type jsonField struct {
	name      string
	index     []int
	typ       types.Type
	omitEmpty bool
	asString  bool
}

func jsonFields(st *types.Struct) []jsonField { return jsonFieldsP(st, false) }

// jsonFieldsP: with throughPtr the fields of an embedded *pointer* to a struct are promoted as well (what
// encoding/json does; on the encoding side a nil embedded pointer contributes no members).
func jsonFieldsP(st *types.Struct, throughPtr bool) []jsonField {
	var out []jsonField
	for i := 0; i < st.NumFields(); i++ {
		f := st.Field(i)
		tag := reflect.StructTag(st.Tag(i)).Get("json")
		if tag == "-" {
			continue
		}
		name, opts, _ := strings.Cut(tag, ",")
		if f.Embedded() && name == "" {
			ft := f.Type()
			if p, ok := ft.Underlying().(*types.Pointer); ok {
				ft = p.Elem()
			}
			if est, ok := ft.Underlying().(*types.Struct); ok {
				if _, isPtr := f.Type().Underlying().(*types.Pointer); !isPtr || throughPtr {
					for _, sub := range jsonFieldsP(est, throughPtr) {
						sub.index = append([]int{i}, sub.index...)
						out = append(out, sub)
					}
					continue
				}
			}
		}
		if !f.Exported() {
			continue
		}
		if name == "" {
			name = f.Name()
		}
		out = append(out, jsonField{name: name, index: []int{i}, typ: f.Type(),
			omitEmpty: strings.Contains(","+opts+",", ",omitempty,"),
			asString:  strings.Contains(","+opts+",", ",string,")})
	}
	return out
}

type jsonErr struct{ kind, msg string }

func (e *Engine) jsonMarshal(fr *frame, v Iface) Value {
	if v.T == nil {
		return Tuple{docSlice(e.newDoc(DNull)), Iface{}}
	}
	d, jerr := e.marshalValue(fr, v.T, v.V)
	if jerr != nil {
		return Tuple{[]Value(nil), e.extError("encoding/json." + jerr.kind)}
	}
	return Tuple{docSlice(d), Iface{}}
}

func isNamed(t types.Type, pkg, name string) bool {
	n, ok := types.Unalias(t).(*types.Named)
	return ok && n.Obj().Pkg() != nil && n.Obj().Pkg().Path() == pkg && n.Obj().Name() == name
}

func (e *Engine) marshalValue(fr *frame, t types.Type, v Value) (*Doc, *jsonErr) {
	// special types
	if isNamed(t, "encoding/json", "RawMessage") {
		bs := v.([]Value)
		if bs == nil {
			return e.newDoc(DNull), nil
		}
		if d, ok := asDoc(bs); ok {
			if d.kind == DSym {
				if !e.branch(d.valid) {
					return nil, &jsonErr{"MarshalerError", "invalid RawMessage"}
				}
			}
			return d, nil
		}
		d, err := e.parseConcreteDoc(bs)
		if err != nil {
			return nil, &jsonErr{"MarshalerError", "invalid RawMessage"}
		}
		return d, nil
	}
	if isNamed(t, "time", "Time") {
		d := e.newDoc(DStr)
		d.leaf = &OpaqueStr{Tag: "time:2006-01-02T15:04:05.999999999Z07:00", Payload: copyVal(v)}
		return d, nil
	}
	// user-defined MarshalJSON
	if _, isI := t.Underlying().(*types.Interface); !isI {
		if m := e.lookupMethodByName(t, "MarshalJSON"); m != nil {
			r := e.call(fr, token.NoPos, m, []Value{v}).(Tuple)
			if r[1].(Iface).T != nil {
				return nil, &jsonErr{"MarshalerError", "MarshalJSON failed"}
			}
			bs := r[0].([]Value)
			if d, ok := asDoc(bs); ok {
				return d, nil
			}
			d, err := e.parseConcreteDoc(bs)
			if err != nil {
				return nil, &jsonErr{"MarshalerError", "MarshalJSON produced invalid JSON"}
			}
			return d, nil
		}
		if m := e.lookupMethodByName(t, "MarshalText"); m != nil {
			panic(engineErr("json: MarshalText on %s not modelled", t))
		}
	}
	switch u := t.Underlying().(type) {
	case *types.Basic:
		switch {
		case u.Info()&types.IsBoolean != 0:
			d := e.newDoc(DBool)
			d.leaf = v
			return d, nil
		case u.Info()&types.IsString != 0:
			d := e.newDoc(DStr)
			d.leaf = normStr(v)
			return d, nil
		case u.Info()&types.IsInteger != 0:
			d := e.newDoc(DNum)
			d.leaf = v
			d.isInt = true
			return d, nil
		case u.Info()&types.IsFloat != 0:
			d := e.newDoc(DNum)
			d.leaf = v
			f := v.(float64)
			if f != f || f > 1.7976931348623157e308 || f < -1.7976931348623157e308 {
				return nil, &jsonErr{"UnsupportedValueError", "NaN/Inf"}
			}
			d.isInt = f == float64(int64(f)) && f < 1e21 && f > -1e21
			return d, nil
		}
		return nil, &jsonErr{"UnsupportedTypeError", t.String()}
	case *types.Pointer:
		p := v.(*Value)
		if p == nil {
			return e.newDoc(DNull), nil
		}
		return e.marshalValue(fr, u.Elem(), e.load(p, nil))
	case *types.Interface:
		itf := v.(Iface)
		if itf.T == nil {
			return e.newDoc(DNull), nil
		}
		return e.marshalValue(fr, itf.T, itf.V)
	case *types.Struct:
		s := v.(Struct)
		d := e.newDoc(DObj)
	fields:
		for _, f := range jsonFieldsP(u, true) {
			fv := Value(s)
			for _, ix := range f.index {
				if p, isPtr := fv.(*Value); isPtr {
					// promoted through an embedded pointer
					if p == nil {
						continue fields
					}
					fv = *p
				}
				fv = fv.(Struct)[ix]
			}
			if f.omitEmpty && e.branch(e.isEmptyValue(f.typ, fv)) {
				continue
			}
			fd, jerr := e.marshalValue(fr, f.typ, fv)
			if jerr != nil {
				return nil, jerr
			}
			d.keys = append(d.keys, f.name)
			d.vals = append(d.vals, fd)
		}
		return d, nil
	case *types.Slice:
		s := v.([]Value)
		if s == nil {
			return e.newDoc(DNull), nil
		}
		if eb := basicOf(u.Elem()); eb != nil && eb.Kind() == types.Uint8 {
			d := e.newDoc(DStr)
			if dd, ok := asDoc(s); ok {
				d.leaf = &OpaqueStr{Tag: "base64", Payload: dd}
			} else {
				d.leaf = &OpaqueStr{Tag: "base64", Payload: e.bytesToString(s)}
			}
			return d, nil
		}
		d := e.newDoc(DArr)
		d.elems = []*Doc{}
		for i := range s {
			ed, jerr := e.marshalValue(fr, u.Elem(), s[i])
			if jerr != nil {
				return nil, jerr
			}
			d.elems = append(d.elems, ed)
		}
		return d, nil
	case *types.Array:
		a := v.(Array)
		d := e.newDoc(DArr)
		d.elems = []*Doc{}
		for i := range a {
			ed, jerr := e.marshalValue(fr, u.Elem(), a[i])
			if jerr != nil {
				return nil, jerr
			}
			d.elems = append(d.elems, ed)
		}
		return d, nil
	case *types.Map:
		m := v.(*Map)
		if m == nil {
			return e.newDoc(DNull), nil
		}
		kb := basicOf(u.Key())
		if kb == nil || kb.Info()&types.IsString == 0 {
			panic(engineErr("json: map key type %s not modelled", u.Key()))
		}
		type kv struct {
			k string
			v Value
		}
		var kvs []kv
		for _, en := range m.entries {
			if en.dead {
				continue
			}
			ks, ok := normStr(en.k).(string)
			if !ok {
				panic(engineErr("json: symbolic map key not modelled"))
			}
			kvs = append(kvs, kv{ks, en.v})
		}
		sort.Slice(kvs, func(i, j int) bool { return kvs[i].k < kvs[j].k })
		d := e.newDoc(DObj)
		for _, p := range kvs {
			vd, jerr := e.marshalValue(fr, u.Elem(), p.v)
			if jerr != nil {
				return nil, jerr
			}
			d.keys = append(d.keys, p.k)
			d.vals = append(d.vals, vd)
		}
		return d, nil
	case *types.Chan, *types.Signature:
		return nil, &jsonErr{"UnsupportedTypeError", t.String()}
	}
	return nil, &jsonErr{"UnsupportedTypeError", t.String()}
}

func (e *Engine) isEmptyValue(t types.Type, v Value) Value {
	switch u := t.Underlying().(type) {
	case *types.Basic:
		switch {
		case u.Info()&types.IsBoolean != 0:
			return e.notV(v)
		case u.Info()&types.IsString != 0:
			return e.strBinop(token.EQL, v, "")
		case u.Info()&types.IsInteger != 0:
			if isSigned(u) {
				return e.scalarEq(v, int64(0))
			}
			return e.scalarEq(v, uint64(0))
		case u.Info()&types.IsFloat != 0:
			return v.(float64) == 0
		}
	case *types.Pointer:
		return v.(*Value) == nil
	case *types.Interface:
		return v.(Iface).T == nil
	case *types.Slice:
		return len(v.([]Value)) == 0
	case *types.Map:
		m := v.(*Map)
		return m == nil || m.len() == 0
	case *types.Array:
		return u.Len() == 0
	}
	return false
}

// ---- concrete bytes -> Doc via the host parser

func concreteBytes(bs []Value) ([]byte, bool) {
	out := make([]byte, len(bs))
	for i, b := range bs {
		c, ok := b.(uint64)
		if !ok {
			return nil, false
		}
		out[i] = byte(c)
	}
	return out, true
}

func (e *Engine) parseConcreteDoc(bs []Value) (*Doc, error) {
	raw, ok := concreteBytes(bs)
	if !ok {
		panic(engineErr("json: byte slice with symbolic bytes is not a document"))
	}
	dec := json.NewDecoder(bytes.NewReader(raw))
	dec.UseNumber()
	var x any
	if err := dec.Decode(&x); err != nil {
		return nil, err
	}
	if dec.More() {
		return nil, fmt.Errorf("trailing data")
	}
	// ordered keys need a token walk
	d, err := e.parseOrdered(raw)
	if err != nil {
		return nil, err
	}
	return d, nil
}

func (e *Engine) parseOrdered(raw []byte) (*Doc, error) {
	dec := json.NewDecoder(bytes.NewReader(raw))
	dec.UseNumber()
	d, err := e.parseTok(dec)
	if err != nil {
		return nil, err
	}
	if _, err := dec.Token(); err == nil {
		return nil, fmt.Errorf("trailing data")
	}
	return d, nil
}

func (e *Engine) parseTok(dec *json.Decoder) (*Doc, error) {
	tok, err := dec.Token()
	if err != nil {
		return nil, err
	}
	switch t := tok.(type) {
	case json.Delim:
		switch t {
		case '{':
			d := e.newDoc(DObj)
			for dec.More() {
				kt, err := dec.Token()
				if err != nil {
					return nil, err
				}
				k := kt.(string)
				v, err := e.parseTok(dec)
				if err != nil {
					return nil, err
				}
				// duplicate keys: last wins for typed decoding; keep both in order
				d.keys = append(d.keys, k)
				d.vals = append(d.vals, v)
			}
			if _, err := dec.Token(); err != nil {
				return nil, err
			}
			return d, nil
		case '[':
			d := e.newDoc(DArr)
			d.elems = []*Doc{}
			for dec.More() {
				v, err := e.parseTok(dec)
				if err != nil {
					return nil, err
				}
				d.elems = append(d.elems, v)
			}
			if _, err := dec.Token(); err != nil {
				return nil, err
			}
			return d, nil
		}
	case string:
		d := e.newDoc(DStr)
		d.leaf = t
		return d, nil
	case json.Number:
		d := e.newDoc(DNum)
		if i, err := t.Int64(); err == nil && !strings.ContainsAny(string(t), ".eE") {
			d.leaf = i
			d.isInt = true
		} else {
			f, _ := t.Float64()
			d.leaf = f
		}
		return d, nil
	case bool:
		d := e.newDoc(DBool)
		d.leaf = t
		return d, nil
	case nil:
		return e.newDoc(DNull), nil
	}
	return nil, fmt.Errorf("unexpected token %v", tok)
}

// ---- Unmarshal

func (e *Engine) jsonValid(bs []Value) Value {
	if d, ok := asDoc(bs); ok {
		if d.kind == DSym {
			return d.valid
		}
		return true
	}
	_, err := e.parseConcreteDoc(bs)
	return err == nil
}

func (e *Engine) jsonUnmarshal(fr *frame, data []Value, target Iface) Value {
	fail := func(kind string) Value { return e.extError("encoding/json." + kind) }
	if target.T == nil {
		return fail("InvalidUnmarshalError")
	}
	pt, ok := target.T.Underlying().(*types.Pointer)
	if !ok || target.V.(*Value) == nil {
		return fail("InvalidUnmarshalError")
	}
	var d *Doc
	if dd, ok := asDoc(data); ok {
		d = dd
	} else {
		if len(data) == 0 {
			return fail("SyntaxError")
		}
		dd, err := e.parseConcreteDoc(data)
		if err != nil {
			return fail("SyntaxError")
		}
		d = dd
	}
	if d.kind == DSym {
		if !e.branch(d.valid) {
			return fail("SyntaxError")
		}
	}
	var firstErr string
	cell := target.V.(*Value)
	nv := e.decodeInto(fr, d, pt.Elem(), e.load(cell, nil), &firstErr)
	e.store(cell, nv, nil)
	if firstErr != "" {
		return fail(firstErr)
	}
	return Iface{}
}

// symIs asks whether an arbitrary document has kind k, refining it lazily:
// only the distinctions the decoder actually makes become case splits.
func (e *Engine) symIs(d *Doc, k docKind) bool {
	if d.kind != DSym {
		return d.kind == k
	}
	if d.decided {
		return d.symKind == k
	}
	if d.kindT == nil {
		t := e.newInputInt("doc-kind:"+d.tag, 0, 5)
		d.kindT = t.(*Term)
	}
	if !e.branch(e.simplify(e.ts.Eq(d.kindT, e.ts.Int(int64(k))), nil)) {
		return false
	}
	d.symKind = k
	d.decided = true
	switch k {
	case DStr:
		d.leaf = e.callIntrinsicStr("docstr:" + d.tag)
	case DNum:
		d.isInt = true
		if e.branch(e.newInput("bool", "doc-num-fractional:"+d.tag, sortBool)) {
			d.isInt = false
			d.leaf = float64(0.5)
		} else {
			d.leaf = e.newInputInt("docnum:"+d.tag, -(1 << 40), 1<<40)
		}
	case DBool:
		d.leaf = e.newInput("bool", "docbool:"+d.tag, sortBool)
	case DArr:
		n := e.concretizeInt(e.newInputInt("doc-arr-len:"+d.tag, 0, 2), "array length")
		d.elems = []*Doc{}
		for i := int64(0); i < n; i++ {
			c := e.symDocNode(fmt.Sprintf("%s[%d]", d.tag, i))
			c.absent = d.absent
			d.elems = append(d.elems, c)
		}
	}
	return true
}

// symKindOf fully decides the kind (needed only when decoding into `any`).
func (e *Engine) symKindOf(d *Doc) docKind {
	if d.kind != DSym {
		return d.kind
	}
	for k := DNull; k <= DObj; k++ {
		if e.symIs(d, k) {
			return k
		}
	}
	e.infeasiblePath("document kind")
	return DNull
}

func (e *Engine) callIntrinsicStr(tag string) Value {
	t := e.newInput("str", tag, sortStr)
	e.assumeTerm(e.ts.mk(sortBool, "<=", e.ts.StrLen(t), e.ts.Int(1<<20)))
	return t
}

func (e *Engine) symDocNode(tag string) *Doc {
	d := e.newDoc(DSym)
	d.tag = tag
	d.valid = true
	d.children = map[string]*Doc{}
	d.present = map[string]Value{}
	return d
}

// symbolicDoc implements vDoc: an arbitrary byte string seen through
// encoding/json: either not a JSON document, or an arbitrary tree.
func (e *Engine) symbolicDoc(tag string, absent string) Value {
	d := e.symDocNode(tag)
	d.valid = e.newInput("bool", "doc-valid:"+tag, sortBool)
	if absent != "" {
		d.absent = map[string]bool{}
		for _, k := range strings.Split(absent, ",") {
			d.absent[strings.TrimSpace(k)] = true
		}
	}
	e.nondets = append(e.nondets, nondetRec{Name: fmt.Sprintf("in%d_doc", len(e.nondets)), Kind: "h:doc", Tag: tag, Doc: d})
	return docSlice(d)
}

// symChild returns the member of an arbitrary object for key, or nil.
func (e *Engine) symChild(d *Doc, key string) *Doc {
	if d.absent[key] {
		return nil
	}
	if _, ok := d.present[key]; !ok {
		d.present[key] = e.newInput("bool", "doc-has:"+d.tag+"."+key, sortBool)
	}
	if !e.branch(d.present[key]) {
		return nil
	}
	c := d.children[key]
	if c == nil {
		c = e.symDocNode(d.tag + "." + key)
		c.absent = d.absent
		d.children[key] = c
	}
	return c
}

func (e *Engine) objMember(d *Doc, f jsonField) *Doc {
	if d.kind == DSym {
		return e.symChild(d, f.name)
	}
	var found *Doc
	// exact match first (last duplicate wins), then case-insensitive
	for i, k := range d.keys {
		if k == f.name {
			found = d.vals[i]
		}
	}
	if found != nil {
		return found
	}
	for i, k := range d.keys {
		if strings.EqualFold(k, f.name) {
			found = d.vals[i]
		}
	}
	return found
}

func (e *Engine) decodeInto(fr *frame, d *Doc, t types.Type, cur Value, firstErr *string) Value {
	saveErr := func(k string) {
		if *firstErr == "" {
			*firstErr = k
		}
	}
	is := func(k docKind) bool { return e.symIs(d, k) }
	// special types
	if isNamed(t, "encoding/json", "RawMessage") {
		return docSlice(d)
	}
	if is(DNull) {
		switch t.Underlying().(type) {
		case *types.Pointer, *types.Interface, *types.Map, *types.Slice:
			return zero(t)
		}
		return cur
	}
	if isNamed(t, "time", "Time") {
		if is(DStr) {
			if o, ok := d.leaf.(*OpaqueStr); ok && strings.HasPrefix(o.Tag, "time:") {
				return copyVal(o.Payload)
			}
		}
		saveErr("time.ParseError")
		return cur
	}
	if _, isI := t.Underlying().(*types.Interface); !isI {
		if m := e.lookupMethodByName(types.NewPointer(t), "UnmarshalJSON"); m != nil {
			var cell Value = cur
			r := e.call(fr, token.NoPos, m, []Value{&cell, docSlice(d)})
			if r.(Iface).T != nil {
				saveErr("UnmarshalerError")
			}
			return cell
		}
	}
	switch u := t.Underlying().(type) {
	case *types.Pointer:
		p := cur.(*Value)
		if p == nil {
			p = new(Value)
			*p = zero(u.Elem())
		}
		*p = e.decodeInto(fr, d, u.Elem(), *p, firstErr)
		return p
	case *types.Interface:
		if u.NumMethods() != 0 {
			saveErr("UnmarshalTypeError")
			return cur
		}
		return e.decodeAny(d)
	case *types.Struct:
		if !is(DObj) {
			saveErr("UnmarshalTypeError")
			return cur
		}
		s := copyVal(cur).(Struct)
		for _, f := range jsonFields(u) {
			m := e.objMember(d, f)
			if m == nil {
				continue
			}
			holder := s
			for _, ix := range f.index[:len(f.index)-1] {
				holder = holder[ix].(Struct)
			}
			last := f.index[len(f.index)-1]
			holder[last] = e.decodeInto(fr, m, f.typ, holder[last], firstErr)
		}
		return s
	case *types.Basic:
		switch {
		case u.Info()&types.IsBoolean != 0:
			if !is(DBool) {
				saveErr("UnmarshalTypeError")
				return cur
			}
			return d.leaf
		case u.Info()&types.IsString != 0:
			if !is(DStr) {
				saveErr("UnmarshalTypeError")
				return cur
			}
			return d.leaf
		case u.Info()&types.IsInteger != 0:
			if !is(DNum) || !d.isInt {
				saveErr("UnmarshalTypeError")
				return cur
			}
			return e.numInto(d.leaf, u, cur, saveErr)
		case u.Info()&types.IsFloat != 0:
			if !is(DNum) {
				saveErr("UnmarshalTypeError")
				return cur
			}
			switch x := d.leaf.(type) {
			case float64:
				return x
			case int64:
				return float64(x)
			case uint64:
				return float64(x)
			case *Term:
				return float64(e.concretizeInt(x, "json number into float"))
			}
		}
		saveErr("UnmarshalTypeError")
		return cur
	case *types.Slice:
		if is(DStr) {
			if eb := basicOf(u.Elem()); eb != nil && eb.Kind() == types.Uint8 {
				if o, ok := d.leaf.(*OpaqueStr); ok && o.Tag == "base64" {
					switch p := o.Payload.(type) {
					case *Doc:
						return docSlice(p)
					default:
						return e.stringToBytes(p)
					}
				}
			}
		}
		if !is(DArr) {
			saveErr("UnmarshalTypeError")
			return cur
		}
		out := make([]Value, len(d.elems))
		for i, el := range d.elems {
			out[i] = e.decodeInto(fr, el, u.Elem(), zero(u.Elem()), firstErr)
		}
		return out
	case *types.Array:
		if !is(DArr) {
			saveErr("UnmarshalTypeError")
			return cur
		}
		a := copyVal(cur).(Array)
		for i := range a {
			if i < len(d.elems) {
				a[i] = e.decodeInto(fr, d.elems[i], u.Elem(), a[i], firstErr)
			} else {
				a[i] = zero(u.Elem())
			}
		}
		return a
	case *types.Map:
		if !is(DObj) {
			saveErr("UnmarshalTypeError")
			return cur
		}
		if d.kind == DSym {
			panic(engineErr("json: arbitrary document into map not modelled"))
		}
		m := cur.(*Map)
		if m == nil {
			m = newMap(u.Key())
		}
		for i, k := range d.keys {
			m.insert(e, k, e.decodeInto(fr, d.vals[i], u.Elem(), zero(u.Elem()), firstErr))
		}
		return m
	}
	saveErr("UnmarshalTypeError")
	return cur
}

func (e *Engine) numInto(leaf Value, b *types.Basic, cur Value, saveErr func(string)) Value {
	lo, hi := typeRange(b)
	switch x := leaf.(type) {
	case int64:
		bx := bigFromInt64(x)
		if bx.Cmp(lo) < 0 || bx.Cmp(hi) > 0 {
			saveErr("UnmarshalTypeError")
			return cur
		}
		if isSigned(b) {
			return x
		}
		return uint64(x)
	case uint64:
		bx := bigFromUint64(x)
		if bx.Cmp(hi) > 0 {
			saveErr("UnmarshalTypeError")
			return cur
		}
		if isSigned(b) {
			return int64(x)
		}
		return x
	case *Term:
		var it *Term
		if x.Sort.K == SBV {
			it = e.ts.BV2Int(x)
		} else {
			it = x
		}
		in := e.simplify(e.ts.And(e.ts.Le(e.ts.IntBig(lo), it), e.ts.Le(it, e.ts.IntBig(hi))), nil)
		if !e.branch(in) {
			saveErr("UnmarshalTypeError")
			return cur
		}
		if isSigned(b) {
			if x.Sort.K == SInt {
				return x
			}
			return e.simplify(it, nil)
		}
		if x.Sort.K == SBV {
			w := intWidth(b)
			if x.Sort.W < w {
				return e.simplify(e.ts.BVZext(x, w), nil)
			}
			return e.simplify(e.ts.BVExtract(x, w), nil)
		}
		return e.simplify(e.ts.Int2BV(x, intWidth(b)), nil)
	case float64:
		saveErr("UnmarshalTypeError")
		return cur
	}
	panic(engineErr("json: numeric leaf %T", leaf))
}

func (e *Engine) decodeAny(d *Doc) Value {
	switch e.symKindOf(d) {
	case DNull:
		return Iface{}
	case DBool:
		return Iface{T: types.Typ[types.Bool], V: d.leaf}
	case DStr:
		return Iface{T: types.Typ[types.String], V: d.leaf}
	case DNum:
		if e.jsonUseNumber {
			// Decoder.UseNumber: numbers reach interface targets as json.Number (a string type)
			if nt := e.jsonNumberType(); nt != nil {
				switch x := d.leaf.(type) {
				case int64:
					return Iface{T: nt, V: strconv.FormatInt(x, 10)}
				case uint64:
					return Iface{T: nt, V: strconv.FormatUint(x, 10)}
				case float64:
					return Iface{T: nt, V: strconv.FormatFloat(x, 'g', -1, 64)}
				case *Term:
					return Iface{T: nt, V: strconv.FormatInt(e.concretizeInt(x, "json number into json.Number"), 10)}
				}
			}
		}
		switch x := d.leaf.(type) {
		case float64:
			return Iface{T: types.Typ[types.Float64], V: x}
		case int64:
			return Iface{T: types.Typ[types.Float64], V: float64(x)}
		case uint64:
			return Iface{T: types.Typ[types.Float64], V: float64(x)}
		case *Term:
			return Iface{T: types.Typ[types.Float64], V: float64(e.concretizeInt(x, "json number into any"))}
		}
	case DArr:
		out := make([]Value, len(d.elems))
		for i, el := range d.elems {
			out[i] = e.decodeAny(el)
		}
		return Iface{T: types.NewSlice(anyType), V: out}
	case DObj:
		if d.kind == DSym {
			panic(engineErr("json: arbitrary object into any not modelled"))
		}
		m := newMap(types.Typ[types.String])
		for i, k := range d.keys {
			m.insert(e, k, e.decodeAny(d.vals[i]))
		}
		return Iface{T: types.NewMap(types.Typ[types.String], anyType), V: m}
	}
	return Iface{}
}

var anyType = types.Universe.Lookup("any").Type()

// renderDoc turns an arbitrary document into concrete JSON text using the
// current model (for native replay). Undecided parts get harmless defaults.
func (e *Engine) renderDoc(d *Doc) string {
	mv := func(t Value) ModelValue {
		tt, ok := t.(*Term)
		if !ok {
			switch x := t.(type) {
			case bool:
				return ModelValue{Sort: sortBool, B: x}
			case int64:
				return ModelValue{Sort: sortInt, I: bigFromInt64(x)}
			case string:
				return ModelValue{Sort: sortStr, S: x}
			}
			return ModelValue{}
		}
		return e.solver.GetValues([]*Term{tt})[0]
	}
	var rec func(d *Doc) string
	rec = func(d *Doc) string {
		if d.kind != DSym {
			return e.renderConcreteDoc(d, mv)
		}
		kind := d.symKind
		if !d.decided {
			if d.kindT == nil {
				return "null"
			}
			kind = docKind(mv(d.kindT).I.Int64())
			switch kind {
			case DStr:
				return `""`
			case DNum:
				return "0"
			case DBool:
				return "false"
			case DArr:
				return "[]"
			case DObj:
				// fall through to members decided so far
			default:
				return "null"
			}
		}
		switch kind {
		case DNull:
			return "null"
		case DBool:
			if mv(d.leaf).B {
				return "true"
			}
			return "false"
		case DNum:
			if !d.isInt {
				return "0.5"
			}
			return mv(d.leaf).I.String()
		case DStr:
			b, _ := json.Marshal(mv(d.leaf).S)
			return string(b)
		case DArr:
			var parts []string
			for _, el := range d.elems {
				parts = append(parts, rec(el))
			}
			return "[" + strings.Join(parts, ",") + "]"
		case DObj:
			var keys []string
			for k := range d.present {
				keys = append(keys, k)
			}
			sort.Strings(keys)
			var parts []string
			for _, k := range keys {
				if !mv(d.present[k]).B {
					continue
				}
				kb, _ := json.Marshal(k)
				c := d.children[k]
				if c == nil {
					parts = append(parts, string(kb)+":null")
				} else {
					parts = append(parts, string(kb)+":"+rec(c))
				}
			}
			return "{" + strings.Join(parts, ",") + "}"
		}
		return "null"
	}
	if !mv(d.valid).B {
		return "{not json"
	}
	return rec(d)
}

func (e *Engine) renderConcreteDoc(d *Doc, mv func(Value) ModelValue) string {
	switch d.kind {
	case DNull:
		return "null"
	case DBool:
		if mv(d.leaf).B {
			return "true"
		}
		return "false"
	case DNum:
		if f, ok := d.leaf.(float64); ok {
			b, _ := json.Marshal(f)
			return string(b)
		}
		return mv(d.leaf).I.String()
	case DStr:
		b, _ := json.Marshal(mv(d.leaf).S)
		return string(b)
	case DArr:
		var parts []string
		for _, el := range d.elems {
			parts = append(parts, e.renderConcreteDoc(el, mv))
		}
		return "[" + strings.Join(parts, ",") + "]"
	case DObj:
		var parts []string
		for i, k := range d.keys {
			kb, _ := json.Marshal(k)
			parts = append(parts, string(kb)+":"+e.renderConcreteDoc(d.vals[i], mv))
		}
		return "{" + strings.Join(parts, ",") + "}"
	}
	return "null"
}

// jsonNumberType finds encoding/json.Number in the loaded program.
func (e *Engine) jsonNumberType() types.Type {
	for _, p := range e.prog.AllPackages() {
		if p.Pkg.Path() == "encoding/json" {
			if t := p.Type("Number"); t != nil {
				return t.Type()
			}
		}
	}
	return nil
}

// docHasStringToken: does the JSON text of d contain the quoted token "word"
// (word without characters that need escaping)? That is the case exactly when
// some member name or some string value of the tree equals word.
func (e *Engine) docHasStringToken(d *Doc, word string) Value {
	switch d.kind {
	case DSym:
		panic(engineErr("substring search in an arbitrary document is not modelled"))
	case DObj:
		var r Value = false
		for i, k := range d.keys {
			if k == word {
				return true
			}
			r = e.orV(r, e.docHasStringToken(d.vals[i], word))
		}
		return r
	case DArr:
		var r Value = false
		for _, el := range d.elems {
			r = e.orV(r, e.docHasStringToken(el, word))
		}
		return r
	case DStr:
		switch l := d.leaf.(type) {
		case *OpaqueStr:
			if l.Tag == "doc" {
				// a document spliced in as a string would be escaped: its quotes are not token quotes
				return false
			}
			return false
		default:
			return e.strBinop(token.EQL, l, word)
		}
	}
	return false
}
