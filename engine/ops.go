package main

// Operators over concrete and symbolic scalars.

import (
	"fmt"
	"go/token"
	"go/types"
	"math/big"

	"golang.org/x/tools/go/ssa"
)

var (
	big1    = big.NewInt(1)
	twoTo63 = new(big.Int).Lsh(big1, 63)
	twoTo64 = new(big.Int).Lsh(big1, 64)
)

func typeRange(b *types.Basic) (lo, hi *big.Int) {
	w := uint(intWidth(b))
	if isSigned(b) {
		hi = new(big.Int).Sub(new(big.Int).Lsh(big1, w-1), big1)
		lo = new(big.Int).Neg(new(big.Int).Lsh(big1, w-1))
	} else {
		lo = big.NewInt(0)
		hi = new(big.Int).Sub(new(big.Int).Lsh(big1, w), big1)
	}
	return
}

func wrapSigned(v int64, w int) int64 {
	switch w {
	case 8:
		return int64(int8(v))
	case 16:
		return int64(int16(v))
	case 32:
		return int64(int32(v))
	}
	return v
}

func wrapUnsigned(v uint64, w int) uint64 {
	switch w {
	case 8:
		return uint64(uint8(v))
	case 16:
		return uint64(uint16(v))
	case 32:
		return uint64(uint32(v))
	}
	return v
}

// toTerm lifts a scalar value of basic type b to a term.
func (e *Engine) toTerm(v Value, b *types.Basic) *Term {
	switch v := v.(type) {
	case *Term:
		return v
	case bool:
		return e.ts.Bool(v)
	case int64:
		return e.ts.Int(v)
	case uint64:
		return e.ts.BV(v, intWidth(b))
	case string:
		return e.ts.StrC(v)
	}
	panic(engineErr("toTerm: cannot lift %T (%s)", v, valString(v)))
}

func (e *Engine) boolTerm(v Value) *Term {
	switch v := v.(type) {
	case *Term:
		return v
	case bool:
		return e.ts.Bool(v)
	}
	panic(engineErr("boolTerm: %T", v))
}

// simplify turns constant terms back into concrete values.
func (e *Engine) simplify(t *Term, b *types.Basic) Value {
	if !t.Const {
		return t
	}
	switch t.Sort.K {
	case SBool:
		return t.B
	case SInt:
		if t.I.IsInt64() {
			return t.I.Int64()
		}
		return t
	case SBV:
		return t.I.Uint64()
	case SStr:
		return t.Str
	}
	return t
}

// fitInt makes an Int-sorted result respect the range of signed type b,
// applying Go's wrap-around only if the solver says it can happen.
func (e *Engine) fitInt(r *Term, b *types.Basic, mul bool) Value {
	if r.Const {
		lo, hi := typeRange(b)
		if r.I.Cmp(lo) >= 0 && r.I.Cmp(hi) <= 0 {
			return r.I.Int64()
		}
		// constant overflow: wrap
		m := new(big.Int).Lsh(big1, uint(intWidth(b)))
		x := new(big.Int).Sub(r.I, lo)
		x.Mod(x, m)
		x.Add(x, lo)
		return x.Int64()
	}
	lo, hi := typeRange(b)
	if r.Lo != nil && r.Hi != nil && r.Lo.Cmp(lo) >= 0 && r.Hi.Cmp(hi) <= 0 {
		return r
	}
	tlo, thi := e.ts.IntBig(lo), e.ts.IntBig(hi)
	out := e.ts.Or(e.ts.Lt(r, tlo), e.ts.Lt(thi, r))
	if !e.feasible(out) {
		// cannot overflow under the current path condition
		return r
	}
	e.stats.OverflowWraps++
	m := e.ts.IntBig(new(big.Int).Lsh(big1, uint(intWidth(b))))
	var w *Term
	if mul {
		w = e.ts.Add(e.ts.ModE(e.ts.Sub(r, tlo), m), tlo)
	} else {
		w = e.ts.Ite(e.ts.Lt(thi, r), e.ts.Sub(r, m), e.ts.Ite(e.ts.Lt(r, tlo), e.ts.Add(r, m), r))
	}
	w.Lo, w.Hi = lo, hi
	return w
}

func (e *Engine) binop(op token.Token, t types.Type, x, y Value) Value {
	// strings in non-plain representation
	if isStrRepr(x) || isStrRepr(y) {
		if _, ok := x.(string); ok || isStrRepr(x) {
			if _, ok := y.(string); ok || isStrRepr(y) {
				return e.strBinop(op, x, y)
			}
		}
	}
	_, xs := x.(*Term)
	_, ys := y.(*Term)
	if !xs && !ys {
		return e.binopConcrete(op, t, x, y)
	}
	b := basicOf(t)
	if b == nil {
		panic(engineErr("symbolic binop %s on non-basic type %s", op, t))
	}
	ts := e.ts
	switch {
	case b.Info()&types.IsBoolean != 0:
		xt, yt := e.boolTerm(x), e.boolTerm(y)
		switch op {
		case token.EQL:
			return e.simplify(ts.Eq(xt, yt), b)
		case token.NEQ:
			return e.simplify(ts.Not(ts.Eq(xt, yt)), b)
		case token.LAND, token.AND:
			return e.simplify(ts.And(xt, yt), b)
		case token.LOR, token.OR:
			return e.simplify(ts.Or(xt, yt), b)
		}
	case b.Info()&types.IsString != 0:
		return e.strBinop(op, x, y)
	case b.Info()&types.IsInteger != 0 && isSigned(b):
		// shifts: y may be unsigned
		if op == token.SHL || op == token.SHR {
			if yc, ok := shiftCount(y); ok && yc < 62 {
				f := ts.IntBig(new(big.Int).Lsh(big1, uint(yc)))
				xt := e.toTerm(x, b)
				if op == token.SHL {
					return e.fitInt(ts.Mul(xt, f), b, true)
				}
				if xt.Lo != nil && xt.Lo.Sign() >= 0 {
					return e.simplify(ts.DivE(xt, f), b)
				}
			}
			panic(engineErr("symbolic signed shift %s unsupported", op))
		}
		xt, yt := e.toTerm(x, b), e.toTerm(y, b)
		if xt.Sort.K != SInt || yt.Sort.K != SInt {
			panic(engineErr("signed binop %s on sorts %s,%s", op, xt.Sort, yt.Sort))
		}
		switch op {
		case token.ADD:
			return e.fitInt(ts.Add(xt, yt), b, false)
		case token.SUB:
			return e.fitInt(ts.Sub(xt, yt), b, false)
		case token.MUL:
			return e.fitInt(ts.Mul(xt, yt), b, true)
		case token.QUO, token.REM:
			// Go truncates toward zero; SMT div/mod are euclidean. Equal when x >= 0 and y > 0.
			if e.branch(e.simplify(ts.Eq(yt, ts.Int(0)), nil)) {
				e.rtPanic("integer divide by zero")
			}
			nonneg := ts.And(ts.Le(ts.Int(0), xt), ts.Lt(ts.Int(0), yt))
			if !nonneg.Const || !nonneg.B {
				if e.feasible(ts.Not(nonneg)) {
					// general truncated division
					q := ts.DivE(xt, yt)
					r := ts.ModE(xt, yt)
					// trunc: if x<0 && r!=0 then adjust
					adj := ts.And(ts.Lt(xt, ts.Int(0)), ts.Not(ts.Eq(r, ts.Int(0))))
					ypos := ts.Lt(ts.Int(0), yt)
					tq := ts.Ite(adj, ts.Ite(ypos, ts.Add(q, ts.Int(1)), ts.Sub(q, ts.Int(1))), q)
					if op == token.QUO {
						return e.fitInt(tq, b, true)
					}
					return e.fitInt(ts.Sub(xt, ts.Mul(tq, yt)), b, true)
				}
			}
			if op == token.QUO {
				return e.simplify(ts.DivE(xt, yt), b)
			}
			return e.simplify(ts.ModE(xt, yt), b)
		case token.EQL:
			return e.simplify(ts.Eq(xt, yt), b)
		case token.NEQ:
			return e.simplify(ts.Not(ts.Eq(xt, yt)), b)
		case token.LSS:
			return e.simplify(ts.Lt(xt, yt), b)
		case token.LEQ:
			return e.simplify(ts.Le(xt, yt), b)
		case token.GTR:
			return e.simplify(ts.Lt(yt, xt), b)
		case token.GEQ:
			return e.simplify(ts.Le(yt, xt), b)
		}
	case b.Info()&types.IsInteger != 0: // unsigned -> BV
		w := intWidth(b)
		if op == token.SHL || op == token.SHR {
			xt := e.toTerm(x, b)
			var yt *Term
			switch yv := y.(type) {
			case uint64:
				yt = ts.BV(yv, w)
			case int64:
				yt = ts.BV(uint64(yv), w)
			case *Term:
				if yv.Sort.K == SBV {
					if yv.Sort.W < w {
						yt = ts.BVZext(yv, w)
					} else {
						yt = ts.BVExtract(yv, w)
					}
				} else {
					yt = ts.Int2BV(yv, w)
				}
			}
			if op == token.SHL {
				return e.simplify(ts.BVShl(xt, yt), b)
			}
			return e.simplify(ts.BVLshr(xt, yt), b)
		}
		xt, yt := e.toTerm(x, b), e.toTerm(y, b)
		if xt.Sort.K != SBV || yt.Sort.K != SBV {
			panic(engineErr("unsigned binop %s on sorts %s,%s", op, xt.Sort, yt.Sort))
		}
		switch op {
		case token.ADD:
			return e.simplify(ts.BVAdd(xt, yt), b)
		case token.SUB:
			return e.simplify(ts.BVSub(xt, yt), b)
		case token.MUL:
			return e.simplify(ts.BVMul(xt, yt), b)
		case token.QUO:
			if e.branch(e.simplify(ts.Eq(yt, ts.BV(0, w)), nil)) {
				e.rtPanic("integer divide by zero")
			}
			return e.simplify(ts.BVUdiv(xt, yt), b)
		case token.REM:
			if e.branch(e.simplify(ts.Eq(yt, ts.BV(0, w)), nil)) {
				e.rtPanic("integer divide by zero")
			}
			return e.simplify(ts.BVUrem(xt, yt), b)
		case token.AND:
			return e.simplify(ts.BVAnd(xt, yt), b)
		case token.OR:
			return e.simplify(ts.BVOr(xt, yt), b)
		case token.XOR:
			return e.simplify(ts.BVXor(xt, yt), b)
		case token.AND_NOT:
			return e.simplify(ts.BVAnd(xt, ts.BVNot(yt)), b)
		case token.EQL:
			return e.simplify(ts.Eq(xt, yt), b)
		case token.NEQ:
			return e.simplify(ts.Not(ts.Eq(xt, yt)), b)
		case token.LSS:
			return e.simplify(ts.BVUlt(xt, yt), b)
		case token.LEQ:
			return e.simplify(ts.BVUle(xt, yt), b)
		case token.GTR:
			return e.simplify(ts.BVUlt(yt, xt), b)
		case token.GEQ:
			return e.simplify(ts.BVUle(yt, xt), b)
		}
	}
	panic(engineErr("symbolic binop %s on type %s unsupported", op, t))
}

func isFuncVal(v Value) bool {
	switch v.(type) {
	case *Closure, *ssa.Function, *ssa.Builtin:
		return true
	}
	return false
}

func shiftCount(y Value) (uint64, bool) {
	switch y := y.(type) {
	case uint64:
		return y, true
	case int64:
		if y >= 0 {
			return uint64(y), true
		}
	}
	return 0, false
}

func (e *Engine) binopConcrete(op token.Token, t types.Type, x, y Value) Value {
	switch op {
	case token.EQL:
		return e.equals(t, x, y)
	case token.NEQ:
		return e.notV(e.equals(t, x, y))
	}
	b := basicOf(t)
	if b == nil {
		panic(engineErr("binop %s on non-basic type %s", op, t))
	}
	switch {
	case b.Info()&types.IsBoolean != 0:
		xb, yb := x.(bool), y.(bool)
		switch op {
		case token.LAND, token.AND:
			return xb && yb
		case token.LOR, token.OR:
			return xb || yb
		}
	case b.Info()&types.IsString != 0:
		xs, ys := x.(string), y.(string)
		switch op {
		case token.ADD:
			return xs + ys
		case token.LSS:
			return xs < ys
		case token.LEQ:
			return xs <= ys
		case token.GTR:
			return xs > ys
		case token.GEQ:
			return xs >= ys
		}
	case b.Info()&types.IsFloat != 0:
		xf, yf := x.(float64), y.(float64)
		switch op {
		case token.ADD:
			return xf + yf
		case token.SUB:
			return xf - yf
		case token.MUL:
			return xf * yf
		case token.QUO:
			return xf / yf
		case token.LSS:
			return xf < yf
		case token.LEQ:
			return xf <= yf
		case token.GTR:
			return xf > yf
		case token.GEQ:
			return xf >= yf
		}
	case b.Info()&types.IsInteger != 0 && isSigned(b):
		w := intWidth(b)
		xi := x.(int64)
		if op == token.SHL || op == token.SHR {
			yc, ok := shiftCount(y)
			if !ok {
				e.rtPanic("negative shift amount")
			}
			if op == token.SHL {
				if yc >= 64 {
					return int64(0)
				}
				return wrapSigned(xi<<yc, w)
			}
			if yc >= 64 {
				yc = 63
			}
			return xi >> yc
		}
		yi := y.(int64)
		switch op {
		case token.ADD:
			return wrapSigned(xi+yi, w)
		case token.SUB:
			return wrapSigned(xi-yi, w)
		case token.MUL:
			return wrapSigned(xi*yi, w)
		case token.QUO:
			if yi == 0 {
				e.rtPanic("integer divide by zero")
			}
			return wrapSigned(xi/yi, w)
		case token.REM:
			if yi == 0 {
				e.rtPanic("integer divide by zero")
			}
			return wrapSigned(xi%yi, w)
		case token.AND:
			return xi & yi
		case token.OR:
			return xi | yi
		case token.XOR:
			return xi ^ yi
		case token.AND_NOT:
			return xi &^ yi
		case token.LSS:
			return xi < yi
		case token.LEQ:
			return xi <= yi
		case token.GTR:
			return xi > yi
		case token.GEQ:
			return xi >= yi
		}
	case b.Info()&types.IsInteger != 0:
		w := intWidth(b)
		xu := x.(uint64)
		if op == token.SHL || op == token.SHR {
			yc, ok := shiftCount(y)
			if !ok {
				e.rtPanic("negative shift amount")
			}
			if yc >= 64 {
				return uint64(0)
			}
			if op == token.SHL {
				return wrapUnsigned(xu<<yc, w)
			}
			return xu >> yc
		}
		yu := y.(uint64)
		switch op {
		case token.ADD:
			return wrapUnsigned(xu+yu, w)
		case token.SUB:
			return wrapUnsigned(xu-yu, w)
		case token.MUL:
			return wrapUnsigned(xu*yu, w)
		case token.QUO:
			if yu == 0 {
				e.rtPanic("integer divide by zero")
			}
			return xu / yu
		case token.REM:
			if yu == 0 {
				e.rtPanic("integer divide by zero")
			}
			return xu % yu
		case token.AND:
			return xu & yu
		case token.OR:
			return xu | yu
		case token.XOR:
			return xu ^ yu
		case token.AND_NOT:
			return xu &^ yu
		case token.LSS:
			return xu < yu
		case token.LEQ:
			return xu <= yu
		case token.GTR:
			return xu > yu
		case token.GEQ:
			return xu >= yu
		}
	}
	panic(engineErr("binop %s on %s (%T,%T) unsupported", op, t, x, y))
}

func (e *Engine) notV(v Value) Value {
	switch v := v.(type) {
	case bool:
		return !v
	case *Term:
		return e.simplify(e.ts.Not(v), nil)
	}
	panic(engineErr("not of %T", v))
}

func (e *Engine) andV(a, b Value) Value {
	if ab, ok := a.(bool); ok {
		if !ab {
			return false
		}
		return b
	}
	if bb, ok := b.(bool); ok {
		if !bb {
			return false
		}
		return a
	}
	return e.simplify(e.ts.And(a.(*Term), b.(*Term)), nil)
}

// equals compares two values of static type t; the result is bool or *Term.
func (e *Engine) equals(t types.Type, x, y Value) Value {
	if isFuncVal(x) || isFuncVal(y) {
		// func values are only comparable with nil
		return isNilFunc(x) && isNilFunc(y)
	}
	switch x := x.(type) {
	case nil:
		return y == nil || isNilFunc(y)
	case bool, *Term, int64, uint64, string, *ByteStr, *OpaqueStr, float64:
		return e.scalarEq(x, y)
	case *Value:
		return x == y.(*Value)
	case *Map:
		return x == y.(*Map)
	case *Chan:
		return x == y.(*Chan)
	case []Value:
		// only comparison with nil is legal
		ys := y.([]Value)
		return x == nil && ys == nil
	case RType:
		yr, ok := y.(RType)
		return ok && types.Identical(x.T, yr.T)
	case Iface:
		yi, ok := y.(Iface)
		if !ok {
			panic(engineErr("equals: iface vs %T", y))
		}
		if x.T == nil || yi.T == nil {
			return x.T == nil && yi.T == nil
		}
		if !types.Identical(x.T, yi.T) {
			return false
		}
		return e.equals(x.T, x.V, yi.V)
	case Struct:
		ys := y.(Struct)
		var acc Value = true
		for i := range x {
			acc = e.andV(acc, e.equals(nil, x[i], ys[i]))
			if b, ok := acc.(bool); ok && !b {
				return false
			}
		}
		return acc
	case Array:
		ys := y.(Array)
		var acc Value = true
		for i := range x {
			acc = e.andV(acc, e.equals(nil, x[i], ys[i]))
			if b, ok := acc.(bool); ok && !b {
				return false
			}
		}
		return acc
	case *Closure:
		// func values are only comparable with nil
		return x == nil && isNilFunc(y)
	case *Doc:
		yd, ok := y.(*Doc)
		if !ok {
			return false
		}
		return e.docEq(x, yd)
	case RValue:
		panic(engineErr("comparison of reflect.Value"))
	}
	if isNilFunc(x) {
		return isNilFunc(y)
	}
	panic(engineErr("equals: unsupported %T vs %T", x, y))
}

func (e *Engine) scalarEq(x, y Value) Value {
	if isStrRepr(x) || isStrRepr(y) {
		return e.strBinop(token.EQL, x, y)
	}
	xt, xs := x.(*Term)
	yt, ys := y.(*Term)
	if !xs && !ys {
		switch xv := x.(type) {
		case bool:
			return xv == y.(bool)
		case int64:
			return xv == y.(int64)
		case uint64:
			return xv == y.(uint64)
		case string:
			yv, ok := y.(string)
			if !ok {
				return e.strBinop(token.EQL, x, y)
			}
			return xv == yv
		case float64:
			return xv == y.(float64)
		}
		panic(engineErr("scalarEq: %T vs %T", x, y))
	}
	if xs && xt.Sort.K == SStr || ys && yt.Sort.K == SStr {
		return e.strBinop(token.EQL, x, y)
	}
	if !xs {
		xt = e.liftLike(x, yt)
	}
	if !ys {
		yt = e.liftLike(y, xt)
	}
	return e.simplify(e.ts.Eq(xt, yt), nil)
}

// liftLike lifts concrete scalar v to a term of the sort of like.
func (e *Engine) liftLike(v Value, like *Term) *Term {
	switch v := v.(type) {
	case bool:
		return e.ts.Bool(v)
	case int64:
		if like.Sort.K == SBV {
			return e.ts.BV(uint64(v), like.Sort.W)
		}
		return e.ts.Int(v)
	case uint64:
		if like.Sort.K == SInt {
			return e.ts.IntBig(new(big.Int).SetUint64(v))
		}
		return e.ts.BV(v, like.Sort.W)
	case string:
		return e.ts.StrC(v)
	}
	panic(engineErr("liftLike: %T", v))
}

func (e *Engine) unop(op token.Token, t types.Type, x Value) Value {
	switch op {
	case token.NOT:
		return e.notV(x)
	case token.SUB:
		switch x := x.(type) {
		case int64:
			return wrapSigned(-x, intWidth(basicOf(t)))
		case uint64:
			return wrapUnsigned(-x, intWidth(basicOf(t)))
		case float64:
			return -x
		case *Term:
			if x.Sort.K == SInt {
				return e.fitInt(e.ts.Neg(x), basicOf(t), false)
			}
			return e.simplify(e.ts.BVNeg(x), nil)
		}
	case token.XOR:
		switch x := x.(type) {
		case int64:
			return ^x
		case uint64:
			return wrapUnsigned(^x, intWidth(basicOf(t)))
		case *Term:
			if x.Sort.K == SBV {
				return e.simplify(e.ts.BVNot(x), nil)
			}
			// ^x == -x-1
			return e.fitInt(e.ts.Sub(e.ts.Neg(x), e.ts.Int(1)), basicOf(t), false)
		}
	}
	panic(engineErr("unop %s on %T unsupported", op, x))
}

// conv implements ssa.Convert.
func (e *Engine) conv(dst, src types.Type, x Value) Value {
	ud, us := dst.Underlying(), src.Underlying()
	switch ud := ud.(type) {
	case *types.Pointer:
		// unsafe.Pointer <-> pointer
		return x
	case *types.Slice:
		// string -> []byte / []rune
		eb := basicOf(ud.Elem())
		if eb != nil && eb.Kind() == types.Uint8 {
			return e.stringToBytes(x)
		}
		if eb != nil && eb.Kind() == types.Int32 {
			s, ok := x.(string)
			if !ok {
				panic(engineErr("conv symbolic string to []rune"))
			}
			var out []Value
			for _, r := range s {
				out = append(out, int64(r))
			}
			return out
		}
	case *types.Basic:
		if ud.Info()&types.IsString != 0 {
			switch us := us.(type) {
			case *types.Basic:
				if us.Info()&types.IsString != 0 {
					return x
				}
				if us.Info()&types.IsInteger != 0 {
					switch v := x.(type) {
					case int64:
						return string(rune(v))
					case uint64:
						return string(rune(v))
					}
					panic(engineErr("conv symbolic integer to string"))
				}
			case *types.Slice:
				eb := basicOf(us.Elem())
				if eb != nil && eb.Kind() == types.Uint8 {
					return e.bytesToString(x.([]Value))
				}
				if eb != nil && eb.Kind() == types.Int32 {
					var rs []rune
					for _, r := range x.([]Value) {
						rs = append(rs, rune(r.(int64)))
					}
					return string(rs)
				}
			}
		}
		if ud.Kind() == types.UnsafePointer {
			return x
		}
		sb, ok := us.(*types.Basic)
		if !ok {
			break
		}
		if ud.Info()&types.IsNumeric != 0 && sb.Info()&types.IsNumeric != 0 {
			return e.convNum(ud, sb, x)
		}
	}
	panic(engineErr("conv %s -> %s of %T unsupported", src, dst, x))
}

func (e *Engine) convNum(d, s *types.Basic, x Value) Value {
	dw := intWidth(d)
	switch x := x.(type) {
	case int64:
		switch {
		case d.Info()&types.IsFloat != 0:
			return float64(x)
		case isSigned(d):
			return wrapSigned(x, dw)
		default:
			return wrapUnsigned(uint64(x), dw)
		}
	case uint64:
		switch {
		case d.Info()&types.IsFloat != 0:
			return float64(x)
		case isSigned(d):
			return wrapSigned(int64(x), dw)
		default:
			return wrapUnsigned(x, dw)
		}
	case float64:
		switch {
		case d.Info()&types.IsFloat != 0:
			if d.Kind() == types.Float32 {
				return float64(float32(x))
			}
			return x
		case isSigned(d):
			return wrapSigned(int64(x), dw)
		default:
			return wrapUnsigned(uint64(x), dw)
		}
	case *Term:
		switch {
		case d.Info()&types.IsFloat != 0:
			// floats are concrete only: pick the value
			if x.Sort.K == SInt {
				return float64(e.concretizeInt(x, "int->float conversion"))
			}
			return float64(e.concretizeUint(x, "uint->float conversion"))
		case isSigned(d):
			if x.Sort.K == SInt {
				return e.fitInt(x, d, true)
			}
			// BV -> Int
			r := e.ts.BV2Int(x)
			return e.fitInt(r, d, true)
		default:
			if x.Sort.K == SBV {
				if x.Sort.W < dw {
					return e.simplify(e.ts.BVZext(x, dw), d)
				}
				return e.simplify(e.ts.BVExtract(x, dw), d)
			}
			return e.simplify(e.ts.Int2BV(x, dw), d)
		}
	}
	panic(engineErr("convNum %s -> %s of %T", s, d, x))
}

func describeValue(v Value) string { return fmt.Sprintf("%T:%s", v, valString(v)) }
