package main

// String representations: concrete Go string, SMT String term, ByteStr
// (concrete length, symbolic bytes) and OpaqueStr.

import (
	"fmt"
	"go/token"
	"math/big"
	"strconv"
	"strings"
)

func isStrRepr(v Value) bool {
	switch v := v.(type) {
	case *ByteStr, *OpaqueStr:
		return true
	case *Term:
		return v.Sort.K == SStr
	}
	return false
}

func isStringy(v Value) bool {
	if _, ok := v.(string); ok {
		return true
	}
	return isStrRepr(v)
}

// normStr turns an all-concrete ByteStr into a Go string.
func normStr(v Value) Value {
	bs, ok := v.(*ByteStr)
	if !ok {
		return v
	}
	if bs.mat != nil && bs.B == nil {
		return v // lazily materialised digits are symbolic
	}
	buf := make([]byte, len(bs.B))
	for i, b := range bs.B {
		c, ok := b.(uint64)
		if !ok {
			return v
		}
		buf[i] = byte(c)
	}
	return string(buf)
}

func toByteStr(v Value) (*ByteStr, bool) {
	switch v := v.(type) {
	case *ByteStr:
		return v, true
	case string:
		bs := &ByteStr{B: make([]Value, len(v))}
		for i := 0; i < len(v); i++ {
			bs.B[i] = uint64(v[i])
		}
		return bs, true
	}
	return nil, false
}

// byteInt returns an Int-sorted term for a byte value.
func (e *Engine) byteInt(b Value) *Term {
	switch b := b.(type) {
	case uint64:
		return e.ts.Int(int64(b))
	case int64:
		return e.ts.Int(b)
	case *Term:
		if b.Sort.K == SInt {
			return b
		}
		return e.ts.BV2Int(b)
	}
	panic(engineErr("byteInt: %T", b))
}

// byteBV returns a BV8 term for a byte value.
func (e *Engine) byteBV(b Value) *Term {
	switch b := b.(type) {
	case uint64:
		return e.ts.BV(b, 8)
	case *Term:
		if b.Sort.K == SBV {
			return b
		}
		return e.ts.Int2BV(b, 8)
	}
	panic(engineErr("byteBV: %T", b))
}

func (e *Engine) byteEq(a, b Value) Value {
	ac, aok := a.(uint64)
	bc, bok := b.(uint64)
	if aok && bok {
		return ac == bc
	}
	at, _ := a.(*Term)
	bt, _ := b.(*Term)
	if (at != nil && at.Sort.K == SInt) || (bt != nil && bt.Sort.K == SInt) {
		return e.simplify(e.ts.Eq(e.byteInt(a), e.byteInt(b)), nil)
	}
	return e.simplify(e.ts.Eq(e.byteBV(a), e.byteBV(b)), nil)
}

func (e *Engine) byteLt(a, b Value) Value {
	ac, aok := a.(uint64)
	bc, bok := b.(uint64)
	if aok && bok {
		return ac < bc
	}
	at, _ := a.(*Term)
	bt, _ := b.(*Term)
	if (at != nil && at.Sort.K == SInt) || (bt != nil && bt.Sort.K == SInt) {
		return e.simplify(e.ts.Lt(e.byteInt(a), e.byteInt(b)), nil)
	}
	return e.simplify(e.ts.BVUlt(e.byteBV(a), e.byteBV(b)), nil)
}

func (e *Engine) orV(a, b Value) Value {
	return e.notV(e.andV(e.notV(a), e.notV(b)))
}

// strTerm lifts any string representation to an SMT String term.
func (e *Engine) strTerm(v Value) *Term {
	switch v := v.(type) {
	case string:
		return e.ts.StrC(v)
	case *Term:
		if v.Sort.K == SStr {
			return v
		}
	case *ByteStr:
		parts := make([]*Term, v.Len())
		for i, b := range v.bytes() {
			if c, ok := b.(uint64); ok {
				parts[i] = e.ts.StrC(string([]byte{byte(c)}))
			} else {
				parts[i] = e.ts.mk(sortStr, "str.from_code", e.byteInt(b))
			}
		}
		return e.ts.StrConcat(parts...)
	}
	panic(engineErr("strTerm: cannot lift %s", describeValue(v)))
}

func (e *Engine) strBinop(op token.Token, x, y Value) Value {
	x, y = normStr(x), normStr(y)
	xs, xok := x.(string)
	ys, yok := y.(string)
	if op == token.ADD {
		if xok && xs == "" {
			return y
		}
		if yok && ys == "" {
			return x
		}
	}
	if xok && yok {
		switch op {
		case token.ADD:
			return xs + ys
		case token.EQL:
			return xs == ys
		case token.NEQ:
			return xs != ys
		case token.LSS:
			return xs < ys
		case token.LEQ:
			return xs <= ys
		case token.GTR:
			return xs > ys
		case token.GEQ:
			return xs >= ys
		}
	}
	// opaque strings
	xo, xop := x.(*OpaqueStr)
	yo, yop := y.(*OpaqueStr)
	if xop || yop {
		switch op {
		case token.EQL, token.NEQ:
			var r Value
			switch {
			case xop && yop && (xo.Tag == "cat" || yo.Tag == "cat"):
				r = e.catEquals(x, y)
			case xop && yop:
				if xo.Tag != yo.Tag {
					r = false
				} else {
					r = e.equals(nil, xo.Payload, yo.Payload)
				}
			case xop && yok && ys == "", yop && xok && xs == "":
				r = false
			case xop && xo.Tag == "doc" && yok, yop && yo.Tag == "doc" && xok:
				// document bytes against concrete bytes: compared as JSON values
				var d *Doc
				var raw string
				if xop {
					d, raw = xo.Payload.(*Doc), ys
				} else {
					d, raw = yo.Payload.(*Doc), xs
				}
				bs, _ := toByteStr(raw)
				if pd, err := e.parseConcreteDoc(bs.B); err == nil {
					r = e.docEq(d, pd)
				} else {
					r = false
				}
			case xop && xo.Tag == "cat", yop && yo.Tag == "cat":
				r = e.catEquals(x, y)
			default:
				panic(engineErr("comparison of opaque string with %s", describeValue(y)))
			}
			if op == token.NEQ {
				return e.notV(r)
			}
			return r
		case token.ADD:
			if xop && yok && ys == "" {
				return x
			}
			if yop && xok && xs == "" {
				return y
			}
			return e.catConcat(x, y)
		}
		panic(engineErr("operation %s on opaque string", op))
	}
	_, xt := x.(*Term)
	_, yt := y.(*Term)
	if xt || yt {
		a, b := e.strTerm(x), e.strTerm(y)
		switch op {
		case token.ADD:
			return e.simplify(e.ts.StrConcat(a, b), nil)
		case token.EQL:
			return e.simplify(e.ts.Eq(a, b), nil)
		case token.NEQ:
			return e.simplify(e.ts.Not(e.ts.Eq(a, b)), nil)
		case token.LSS:
			return e.simplify(e.ts.StrLt(a, b), nil)
		case token.LEQ:
			return e.simplify(e.ts.StrLe(a, b), nil)
		case token.GTR:
			return e.simplify(e.ts.StrLt(b, a), nil)
		case token.GEQ:
			return e.simplify(e.ts.StrLe(b, a), nil)
		}
		panic(engineErr("string op %s on SMT strings", op))
	}
	// byte strings
	a, aok := toByteStr(x)
	b, bok := toByteStr(y)
	if !aok || !bok {
		panic(engineErr("strBinop %s: %s, %s", op, describeValue(x), describeValue(y)))
	}
	switch op {
	case token.ADD:
		out := &ByteStr{B: make([]Value, 0, a.Len()+b.Len())}
		out.B = append(out.B, a.bytes()...)
		out.B = append(out.B, b.bytes()...)
		return normStr(out)
	case token.EQL:
		return e.byteStrEq(a, b)
	case token.NEQ:
		return e.notV(e.byteStrEq(a, b))
	case token.LSS:
		return e.byteStrLt(a, b, false)
	case token.LEQ:
		return e.byteStrLt(a, b, true)
	case token.GTR:
		return e.byteStrLt(b, a, false)
	case token.GEQ:
		return e.byteStrLt(b, a, true)
	}
	panic(engineErr("strBinop %s unsupported", op))
}

func (e *Engine) byteStrEq(a, b *ByteStr) Value {
	if a.Len() != b.Len() {
		return false
	}
	if a == b {
		return true
	}
	if a.Num != nil && b.Num != nil && !e.noNumStr {
		return e.simplify(e.ts.Eq(a.Num, b.Num), nil)
	}
	var parts []*Term
	ab, bb := a.bytes(), b.bytes()
	for i := range ab {
		c := e.byteEq(ab[i], bb[i])
		if cb, ok := c.(bool); ok {
			if !cb {
				return false
			}
			continue
		}
		parts = append(parts, c.(*Term))
	}
	return e.simplify(e.ts.And(parts...), nil)
}

// byteStrLt: lexicographic a < b (or <= when orEq).
func (e *Engine) byteStrLt(a, b *ByteStr, orEq bool) Value {
	if a == b {
		return orEq
	}
	if a.Num != nil && b.Num != nil && a.Len() == b.Len() && !e.noNumStr {
		if orEq {
			return e.simplify(e.ts.Le(a.Num, b.Num), nil)
		}
		return e.simplify(e.ts.Lt(a.Num, b.Num), nil)
	}
	n := a.Len()
	if b.Len() < n {
		n = b.Len()
	}
	ab, bb := a.bytes(), b.bytes()
	var prefixEq Value = true
	var res Value = false
	for i := 0; i < n; i++ {
		res = e.orV(res, e.andV(prefixEq, e.byteLt(ab[i], bb[i])))
		prefixEq = e.andV(prefixEq, e.byteEq(ab[i], bb[i]))
		if c, ok := prefixEq.(bool); ok && !c {
			return res
		}
	}
	// common prefix equal: shorter is smaller
	var tail bool
	if orEq {
		tail = a.Len() <= b.Len()
	} else {
		tail = a.Len() < b.Len()
	}
	if tail {
		res = e.orV(res, prefixEq)
	}
	return res
}

func (e *Engine) stringToBytes(x Value) Value {
	x = normStr(x)
	switch x := x.(type) {
	case string:
		out := make([]Value, len(x))
		for i := 0; i < len(x); i++ {
			out[i] = uint64(x[i])
		}
		return out
	case *ByteStr:
		out := make([]Value, x.Len())
		for i, b := range x.bytes() {
			if t, ok := b.(*Term); ok && t.Sort.K == SInt {
				out[i] = e.simplify(e.ts.Int2BV(t, 8), nil)
			} else {
				out[i] = b
			}
		}
		return out
	case *OpaqueStr:
		if d, ok := x.Payload.(*Doc); ok && x.Tag == "doc" {
			return []Value{d}
		}
	case *Term:
		if x.Sort.K == SStr {
			return e.symStrBytes(x)
		}
	}
	panic(engineErr("[]byte(%s) unsupported", describeValue(x)))
}

// maxSymStrBytes bounds the byte-level view of a free (SMT) string.
const maxSymStrBytes = 4

// symStrBytes gives a free SMT string a byte-level shape: its length is bounded (maxSymStrBytes; longer strings
// are outside the claim of the run, recorded among the stubs), case-split, and the string is tied to fresh
// symbolic bytes, so that byte-wise library code (path.Clean, strings.Index, hand-written scanners) can be
// executed as real code on it.
func (e *Engine) symStrBytes(t *Term) Value {
	ts := e.ts
	e.stubsHit[fmt.Sprintf("[]byte(free string): lengths up to %d explored, longer strings outside the claim", maxSymStrBytes)]++
	e.assumeTerm(ts.Le(ts.StrLen(t), ts.Int(maxSymStrBytes)))
	n := int(e.concretizeInt(ts.StrLen(t), "length of a free string viewed as bytes"))
	out := make([]Value, n)
	if n == 0 {
		e.assumeTerm(ts.Eq(t, ts.StrC("")))
		return out
	}
	parts := make([]*Term, n)
	for i := 0; i < n; i++ {
		b := e.newInput("byte", "strbyte", sortInt)
		e.assumeTerm(ts.And(ts.Le(ts.Int(0), b), ts.Le(b, ts.Int(255))))
		parts[i] = ts.mk(sortStr, "str.from_code", b)
		out[i] = e.simplify(ts.Int2BV(b, 8), nil)
	}
	e.assumeTerm(ts.Eq(t, ts.StrConcat(parts...)))
	return out
}

func (e *Engine) bytesToString(bs []Value) Value {
	if len(bs) == 1 {
		if d, ok := bs[0].(*Doc); ok {
			return &OpaqueStr{Tag: "doc", Payload: d}
		}
	}
	out := &ByteStr{B: make([]Value, len(bs))}
	copy(out.B, bs)
	return normStr(out)
}

func (e *Engine) strLen(x Value) Value {
	switch x := x.(type) {
	case string:
		return int64(len(x))
	case *ByteStr:
		return int64(x.Len())
	case *Term:
		return e.simplify(e.ts.StrLen(x), nil)
	}
	panic(engineErr("len of %s", describeValue(x)))
}

// ---- decimal formatting / parsing through digit witnesses

var pow10 [20]*big.Int

func init() {
	p := big.NewInt(1)
	for i := range pow10 {
		pow10[i] = new(big.Int).Set(p)
		p = new(big.Int).Mul(p, big.NewInt(10))
	}
}

// digitsOf returns k digit witnesses (most significant first) for Int term n,
// asserting n = sum d_i*10^i. Caller guarantees 0 <= n < 10^k on this path.
func (e *Engine) digitsOf(n *Term, k int, leadingNonZero bool) []Value {
	ds := make([]*Term, k) // ds[0] least significant
	sum := e.ts.Int(0)
	for i := 0; i < k; i++ {
		d := e.freshAux("dg", sortInt)
		e.assumeTerm(e.ts.And(e.ts.mk(sortBool, "<=", e.ts.Int(0), d), e.ts.mk(sortBool, "<=", d, e.ts.Int(9))))
		d.Lo, d.Hi = big.NewInt(0), big.NewInt(9)
		ds[i] = d
		sum = e.ts.Add(sum, e.ts.Mul(d, e.ts.IntBig(pow10[i])))
	}
	e.assumeTerm(e.ts.Eq(n, sum))
	if leadingNonZero && k > 1 {
		e.assumeTerm(e.ts.mk(sortBool, "<=", e.ts.Int(1), ds[k-1]))
	}
	out := make([]Value, k)
	for i := 0; i < k; i++ {
		d := e.ts.Add(ds[k-1-i], e.ts.Int(48))
		d.Lo, d.Hi = big.NewInt(48), big.NewInt(57)
		out[i] = d
	}
	return out
}

// formatDecimal renders v in base 10, zero-padded to width if pad.
func (e *Engine) formatDecimal(v Value, width int, pad bool) Value {
	switch v := v.(type) {
	case int64:
		if pad {
			return fmt.Sprintf("%0*d", width, v)
		}
		if width > 0 {
			return fmt.Sprintf("%*d", width, v)
		}
		return strconv.FormatInt(v, 10)
	case uint64:
		if pad {
			return fmt.Sprintf("%0*d", width, v)
		}
		return strconv.FormatUint(v, 10)
	case *Term:
		n := v
		if n.Sort.K == SBV {
			n = e.ts.BV2Int(n)
		}
		// sign
		neg := e.branch(e.simplify(e.ts.Lt(n, e.ts.Int(0)), nil))
		if neg {
			n = e.ts.Neg(n)
		}
		// digit count: smallest k with n < 10^k
		k := 0
		if pad && !neg && n.Hi != nil {
			// no case split needed when the pad width covers every possible digit count
			for k = 1; k <= 19; k++ {
				if n.Hi.Cmp(pow10[k]) < 0 {
					break
				}
			}
			if k <= 19 && k <= width {
				kk, ww, nn := k, width, n
				return &ByteStr{Num: n, N: width, mat: func() []Value {
					var out []Value
					for i := kk; i < ww; i++ {
						out = append(out, uint64('0'))
					}
					return append(out, e.digitsOf(nn, kk, false)...)
				}}
			}
		}
		for k = 1; k <= 19; k++ {
			if k == 19 {
				break
			}
			if e.branch(e.simplify(e.ts.Lt(n, e.ts.IntBig(pow10[k])), nil)) {
				break
			}
		}
		kk, ww, nn, ng, pd := k, width, n, neg, pad
		mat := func() []Value {
			ds := e.digitsOf(nn, kk, true)
			var out []Value
			w := ww
			if ng {
				out = append(out, uint64('-'))
				w--
			}
			if pd {
				for i := kk; i < w; i++ {
					out = append(out, uint64('0'))
				}
			}
			return append(out, ds...)
		}
		if !neg {
			total := k
			if pad && width > k {
				total = width
			}
			return &ByteStr{Num: n, N: total, mat: mat}
		}
		return normStr(&ByteStr{B: mat()})
	}
	panic(engineErr("formatDecimal of %s", describeValue(v)))
}

// parseDecimal parses a base-10 int64; returns (value, ok) where ok is
// bool or decided by branching.
func (e *Engine) parseDecimal(s Value) (Value, bool) {
	s = normStr(s)
	switch s := s.(type) {
	case string:
		v, err := strconv.ParseInt(s, 10, 64)
		return v, err == nil
	case *ByteStr:
		if s.Num != nil && !e.noNumStr {
			// the string is the decimal rendering of Num
			return e.simplify(s.Num, nil), true
		}
		sB := s.bytes()
		if len(sB) == 0 {
			return int64(0), false
		}
		if len(sB) > 18 {
			// longer strings would need overflow handling; padded offsets are 20 wide
			// leading bytes must then be '0'
		}
		i := 0
		neg := false
		if c, ok := sB[0].(uint64); ok && (c == '-' || c == '+') {
			neg = c == '-'
			i = 1
		}
		sum := e.ts.Int(0)
		nd := len(sB) - i
		if nd == 0 {
			return int64(0), false
		}
		for j := i; j < len(sB); j++ {
			b := e.byteInt(sB[j])
			isDigit := e.simplify(e.ts.And(e.ts.Le(e.ts.Int(48), b), e.ts.Le(b, e.ts.Int(57))), nil)
			if !e.branch(isDigit) {
				return int64(0), false
			}
			d := e.ts.Sub(b, e.ts.Int(48))
			d.Lo, d.Hi = big.NewInt(0), big.NewInt(9)
			sum = e.ts.Add(sum, e.ts.Mul(d, e.ts.IntBig(pow10Big(len(sB)-1-j))))
		}
		if neg {
			sum = e.ts.Neg(sum)
		}
		// range check
		lo, hi := e.ts.IntBig(new(big.Int).Neg(twoTo63)), e.ts.IntBig(new(big.Int).Sub(twoTo63, big1))
		inRange := e.simplify(e.ts.And(e.ts.Le(lo, sum), e.ts.Le(sum, hi)), nil)
		if !e.branch(inRange) {
			return int64(0), false
		}
		if sum.Lo == nil || sum.Lo.Cmp(lo.I) < 0 {
			sum.Lo = lo.I
		}
		if sum.Hi == nil || sum.Hi.Cmp(hi.I) > 0 {
			sum.Hi = hi.I
		}
		return e.simplify(sum, nil), true
	}
	panic(engineErr("parseDecimal of %s", describeValue(s)))
}

func pow10Big(k int) *big.Int {
	if k < len(pow10) {
		return pow10[k]
	}
	return new(big.Int).Exp(big.NewInt(10), big.NewInt(int64(k)), nil)
}

// sprintf implements the subset of fmt verbs ebu uses. Anything else with
// symbolic operands yields an opaque string.
func (e *Engine) sprintf(format string, args []Value) Value {
	var parts []Value
	lit := func(s string) {
		if s != "" {
			parts = append(parts, s)
		}
	}
	ai := 0
	opaque := false
	i := 0
	start := 0
	for i < len(format) {
		if format[i] != '%' {
			i++
			continue
		}
		lit(format[start:i])
		i++
		if i >= len(format) {
			break
		}
		if format[i] == '%' {
			lit("%")
			i++
			start = i
			continue
		}
		zero := false
		width := 0
		flags := ""
		for i < len(format) && strings.IndexByte("+-# 0", format[i]) >= 0 {
			if format[i] == '0' {
				zero = true
			}
			flags += string(format[i])
			i++
		}
		for i < len(format) && format[i] >= '0' && format[i] <= '9' {
			width = width*10 + int(format[i]-'0')
			i++
		}
		if i < len(format) && format[i] == '.' {
			i++
			for i < len(format) && format[i] >= '0' && format[i] <= '9' {
				i++
			}
		}
		if i >= len(format) {
			break
		}
		verb := format[i]
		i++
		start = i
		if ai >= len(args) {
			lit("%!" + string(verb) + "(MISSING)")
			continue
		}
		arg := args[ai]
		ai++
		// unwrap interface
		var av Value = arg
		if ifc, ok := arg.(Iface); ok {
			av = ifc.V
			if ifc.T == nil {
				av = nil
			}
		}
		switch verb {
		case 'd':
			switch av.(type) {
			case int64, uint64, *Term:
				parts = append(parts, e.formatDecimal(av, width, zero))
			default:
				opaque = true
			}
		case 's', 'v', 'w', 'q':
			if isStringy(av) && (verb == 's' || verb == 'v') {
				parts = append(parts, av)
			} else if s, ok := av.(string); ok && verb == 'q' {
				parts = append(parts, strconv.Quote(s))
			} else {
				switch x := av.(type) {
				case int64:
					parts = append(parts, strconv.FormatInt(x, 10))
				case uint64:
					parts = append(parts, strconv.FormatUint(x, 10))
				case bool:
					parts = append(parts, strconv.FormatBool(x))
				case *Term:
					if x.Sort.K == SInt || x.Sort.K == SBV {
						parts = append(parts, e.formatDecimal(x, 0, false))
					} else {
						opaque = true
					}
				default:
					opaque = true
				}
			}
		default:
			opaque = true
		}
	}
	if start < len(format) {
		lit(format[start:])
	}
	if opaque {
		e.opaqueSeq++
		return &OpaqueStr{Tag: "fmt:" + format, Payload: int64(e.opaqueSeq)}
	}
	var acc Value = ""
	for _, p := range parts {
		acc = e.strBinop(token.ADD, acc, p)
	}
	return acc
}

// scanInteger models fmt's integer scanning (verb %v): optional sign, then a
// base prefix (0b, 0o, 0x, or a bare leading 0 meaning octal), then the longest
// run of digits valid in that base; what follows is left unread.
func (e *Engine) scanInteger(sv Value) (Value, bool) {
	sv = normStr(sv)
	var bs []Value
	switch x := sv.(type) {
	case string:
		b, _ := toByteStr(x)
		bs = b.B
	case *ByteStr:
		bs = x.bytes()
	default:
		panic(engineErr("fmt.Sscan of %s", describeValue(sv)))
	}
	conc := func(i int) (byte, bool) {
		if i < len(bs) {
			if c, ok := bs[i].(uint64); ok {
				return byte(c), true
			}
		}
		return 0, false
	}
	pos := 0
	for {
		c, ok := conc(pos)
		if !ok || (c != ' ' && c != '\t' && c != '\n' && c != '\r') {
			break
		}
		pos++
	}
	neg := false
	if c, ok := conc(pos); ok && (c == '-' || c == '+') {
		neg = c == '-'
		pos++
	}
	if pos >= len(bs) {
		return nil, false
	}
	base := int64(10)
	sawZero := false
	if e.branch(e.byteEq(bs[pos], uint64('0'))) {
		sawZero = true
		pos++
		base = 8
		if c, ok := conc(pos); ok {
			switch c {
			case 'b', 'B':
				base = 2
				pos++
			case 'o', 'O':
				base = 8
				pos++
			case 'x', 'X':
				base = 16
				pos++
			}
		}
	}
	if base == 16 {
		panic(engineErr("fmt.Sscan of hexadecimal input not modelled"))
	}
	sum := e.ts.Int(0)
	nd := 0
	for pos < len(bs) {
		if c, ok := conc(pos); ok && c == '_' && (nd > 0 || sawZero) {
			pos++
			continue
		}
		b := e.byteInt(bs[pos])
		okDigit := e.simplify(e.ts.And(e.ts.Le(e.ts.Int(48), b), e.ts.Le(b, e.ts.Int(48+base-1))), nil)
		if !e.branch(okDigit) {
			break
		}
		d := e.ts.Sub(b, e.ts.Int(48))
		d.Lo, d.Hi = big.NewInt(0), big.NewInt(base-1)
		sum = e.ts.Add(e.ts.Mul(sum, e.ts.Int(base)), d)
		nd++
		pos++
		if nd > 21 {
			break
		}
	}
	if nd == 0 && !sawZero {
		return nil, false
	}
	if neg {
		sum = e.ts.Neg(sum)
	}
	lo, hi := e.ts.IntBig(new(big.Int).Neg(twoTo63)), e.ts.IntBig(new(big.Int).Sub(twoTo63, big1))
	if !e.branch(e.simplify(e.ts.And(e.ts.Le(lo, sum), e.ts.Le(sum, hi)), nil)) {
		return nil, false
	}
	if sum.Lo == nil || sum.Lo.Cmp(lo.I) < 0 {
		sum.Lo = lo.I
	}
	if sum.Hi == nil || sum.Hi.Cmp(hi.I) > 0 {
		sum.Hi = hi.I
	}
	return e.simplify(sum, nil), true
}

// ---- concatenations that contain opaque strings ("cat")
//
// x + y with an opaque operand is kept as the list of its parts. Two such
// strings of the same shape are equal iff their parts are (opaque parts by their
// own notion of equality, e.g. documents as JSON values - the marshalled text of
// equal values is identical); any other comparison falls back to SMT strings in
// which every opaque part is an unconstrained non-empty string variable (an
// over-approximation: both outcomes stay possible, and whatever is found is
// replayed natively before it is reported).

func catParts(v Value) []Value {
	if o, ok := v.(*OpaqueStr); ok && o.Tag == "cat" {
		return o.Payload.(Tuple)
	}
	return []Value{v}
}

func (e *Engine) catConcat(x, y Value) Value {
	var parts []Value
	for _, p := range append(append([]Value{}, catParts(x)...), catParts(y)...) {
		if n := len(parts); n > 0 {
			_, lastOpaque := parts[n-1].(*OpaqueStr)
			_, curOpaque := p.(*OpaqueStr)
			if !lastOpaque && !curOpaque {
				parts[n-1] = e.strBinop(token.ADD, parts[n-1], p)
				continue
			}
		}
		parts = append(parts, p)
	}
	return &OpaqueStr{Tag: "cat", Payload: Tuple(parts)}
}

func (e *Engine) catEquals(x, y Value) Value {
	px, py := catParts(x), catParts(y)
	same := len(px) == len(py)
	if same {
		for i := range px {
			_, ox := px[i].(*OpaqueStr)
			_, oy := py[i].(*OpaqueStr)
			if ox != oy {
				same = false
			}
		}
	}
	if same {
		var r Value = true
		for i := range px {
			r = e.andV(r, e.strBinop(token.EQL, px[i], py[i]))
		}
		return r
	}
	return e.simplify(e.ts.Eq(e.catText(px), e.catText(py)), nil)
}

func (e *Engine) catText(parts []Value) *Term {
	ts := make([]*Term, 0, len(parts))
	for _, p := range parts {
		if o, ok := p.(*OpaqueStr); ok {
			if e.opaqueText == nil {
				e.opaqueText = map[*OpaqueStr]*Term{}
			}
			t := e.opaqueText[o]
			if t == nil {
				t = e.freshAux("opaquetext", sortStr)
				e.assumeTermAlways(e.ts.mk(sortBool, "<=", e.ts.Int(1), e.ts.mk(sortInt, "str.len", t)))
				e.opaqueText[o] = t
			}
			ts = append(ts, t)
			continue
		}
		ts = append(ts, e.strTerm(normStr(p)))
	}
	if len(ts) == 1 {
		return ts[0]
	}
	return e.ts.StrConcat(ts...)
}
