package main

// Value representation (shape concrete, scalars possibly symbolic):
//
//	bool                 bool | *Term(Bool)
//	signed ints          int64 | *Term(Int)
//	unsigned ints        uint64 | *Term(BV w)
//	floats               float64 (concrete only)
//	string               string | *Term(String) | *ByteStr | *OpaqueStr
//	pointer              *Value
//	struct / array       Struct / Array (copied by value)
//	slice                []Value (host slice; concrete off/len/cap)
//	map                  *Map (insertion ordered)
//	chan                 *Chan
//	interface            Iface{T,V}
//	func                 *ssa.Function | *Closure | *ssa.Builtin
//	tuple                Tuple
//	reflect.Type         Iface{rtypeT, RType{T}}

import (
	"fmt"
	"go/types"
	"strings"
	"sync"

	"golang.org/x/tools/go/ssa"
)

type Value = any

type Struct []Value
type Array []Value
type Tuple []Value

type Iface struct {
	T types.Type // dynamic type; nil for nil interface
	V Value
}

type Closure struct {
	Fn  *ssa.Function
	Env []Value
}

// ByteStr is a string of concrete length whose bytes may be symbolic
// (uint64 concrete, *Term of sort BV8, or *Term of sort Int in [0,255]).
type ByteStr struct {
	B []Value
	// Num, when set, states that the whole string is the decimal rendering of
	// Num in exactly len(B) digits (zero padded or with a non-zero leading
	// digit). Two such strings of equal length compare like their numbers.
	Num *Term
	// lazy materialisation: B is nil until bytes() is called
	N   int
	mat func() []Value
}

func (bs *ByteStr) bytes() []Value {
	if bs.B == nil && bs.mat != nil {
		bs.B = bs.mat()
		bs.mat = nil
	}
	return bs.B
}

func (bs *ByteStr) Len() int {
	if bs.B == nil && bs.mat != nil {
		return bs.N
	}
	return len(bs.B)
}

// OpaqueStr is a string whose content is not modelled; two opaque strings are
// equal iff their tags and payloads are equal (e.g. formatted timestamps).
type OpaqueStr struct {
	Tag     string
	Payload Value
}

// RType is the dynamic value behind reflect.Type.
type RType struct {
	T types.Type
}

// RValue is reflect.Value.
type RValue struct {
	T types.Type
	V Value
}

// Doc is the payload of a JSON document byte slice: []Value{*Doc}.
// See jsonmodel.go.

type engineError struct{ msg string }

func (e *engineError) Error() string { return e.msg }

func engineErr(format string, args ...any) *engineError {
	return &engineError{msg: fmt.Sprintf(format, args...)}
}

// targetPanic is a Go-level panic in the interpreted program.
type targetPanic struct {
	v      Value
	origin bool // the frame in which it was raised has been looked at
}

// pathAbort unwinds the host stack when the current path ends early.
type pathAbort struct{ reason string }

func isSigned(b *types.Basic) bool {
	return b.Info()&types.IsInteger != 0 && b.Info()&types.IsUnsigned == 0
}

func intWidth(b *types.Basic) int {
	switch b.Kind() {
	case types.Int8, types.Uint8:
		return 8
	case types.Int16, types.Uint16:
		return 16
	case types.Int32, types.Uint32:
		return 32
	}
	return 64
}

func basicOf(t types.Type) *types.Basic {
	if t == nil {
		return nil
	}
	switch u := t.Underlying().(type) {
	case *types.Basic:
		return u
	case *types.Interface:
		// type parameter constraint etc.
		return nil
	}
	return nil
}

// zero returns the zero value of type t.
func zero(t types.Type) Value {
	switch u := t.Underlying().(type) {
	case *types.Basic:
		switch {
		case u.Kind() == types.UntypedNil:
			return nil
		case u.Info()&types.IsBoolean != 0:
			return false
		case u.Info()&types.IsString != 0:
			return ""
		case u.Info()&types.IsFloat != 0:
			return float64(0)
		case u.Info()&types.IsUnsigned != 0:
			return uint64(0)
		case u.Info()&types.IsInteger != 0:
			return int64(0)
		case u.Kind() == types.UnsafePointer:
			return (*Value)(nil)
		}
		panic(engineErr("zero: unsupported basic type %s", t))
	case *types.Pointer:
		return (*Value)(nil)
	case *types.Slice:
		return []Value(nil)
	case *types.Map:
		return (*Map)(nil)
	case *types.Chan:
		return (*Chan)(nil)
	case *types.Signature:
		return (*Closure)(nil)
	case *types.Interface:
		return Iface{}
	case *types.Struct:
		s := make(Struct, u.NumFields())
		for i := range s {
			s[i] = zero(u.Field(i).Type())
		}
		return s
	case *types.Array:
		a := make(Array, u.Len())
		for i := range a {
			a[i] = zero(u.Elem())
		}
		return a
	case *types.Tuple:
		tp := make(Tuple, u.Len())
		for i := range tp {
			tp[i] = zero(u.At(i).Type())
		}
		return tp
	}
	panic(engineErr("zero: unsupported type %s (%T)", t, t.Underlying()))
}

// copyVal returns a copy of v with value semantics (structs/arrays deep-copied).
func copyVal(v Value) Value {
	switch v := v.(type) {
	case Struct:
		c := make(Struct, len(v))
		for i, f := range v {
			c[i] = copyVal(f)
		}
		return c
	case Array:
		c := make(Array, len(v))
		for i, f := range v {
			c[i] = copyVal(f)
		}
		return c
	case Tuple:
		c := make(Tuple, len(v))
		for i, f := range v {
			c[i] = copyVal(f)
		}
		return c
	case Iface:
		switch v.V.(type) {
		case Struct, Array:
			return Iface{T: v.T, V: copyVal(v.V)}
		}
	}
	return v
}

func isNilFunc(v Value) bool {
	switch f := v.(type) {
	case nil:
		return true
	case *Closure:
		return f == nil
	case *ssa.Function:
		return f == nil
	case *ssa.Builtin:
		return f == nil
	}
	return false
}

// typeKey gives a canonical string for a type, used for hashing and identity.
func typeKey(t types.Type) string {
	if t == nil {
		return "<nil>"
	}
	if k, ok := typeKeyCache.Load(t); ok {
		return k.(string)
	}
	k := types.TypeString(t, nil)
	typeKeyCache.Store(t, k)
	return k
}

var typeKeyCache sync.Map // types.Type -> string

// hashKey returns a string key for a fully concrete value; ok=false if the
// value contains symbolic parts.
func hashKey(v Value) (string, bool) {
	switch v := v.(type) {
	case nil:
		return "nil", true
	case bool:
		if v {
			return "T", true
		}
		return "F", true
	case int64:
		return fmt.Sprintf("i%d", v), true
	case uint64:
		return fmt.Sprintf("u%d", v), true
	case float64:
		if v != v {
			return "", false // NaN is never equal to itself
		}
		return fmt.Sprintf("f%v", v), true
	case string:
		return "s" + v, true
	case *Value:
		return fmt.Sprintf("p%p", v), true
	case *Map:
		return fmt.Sprintf("m%p", v), true
	case *Chan:
		return fmt.Sprintf("c%p", v), true
	case *Term, *ByteStr:
		return "", false
	case *OpaqueStr:
		k, ok := hashKey(v.Payload)
		return "o" + v.Tag + ":" + k, ok
	case RType:
		return "rt:" + typeKey(v.T), true
	case Iface:
		k, ok := hashKey(v.V)
		return "I<" + typeKey(v.T) + ">" + k, ok
	case Struct:
		var sb strings.Builder
		sb.WriteString("{")
		for _, f := range v {
			k, ok := hashKey(f)
			if !ok {
				return "", false
			}
			sb.WriteString(k)
			sb.WriteString(",")
		}
		sb.WriteString("}")
		return sb.String(), true
	case Array:
		var sb strings.Builder
		sb.WriteString("[")
		for _, f := range v {
			k, ok := hashKey(f)
			if !ok {
				return "", false
			}
			sb.WriteString(k)
			sb.WriteString(",")
		}
		sb.WriteString("]")
		return sb.String(), true
	case *Closure:
		return fmt.Sprintf("fn%p", v), true
	case *Doc:
		return fmt.Sprintf("doc%p", v), true
	case *ssa.Function:
		return fmt.Sprintf("fn%p", v), true
	}
	panic(engineErr("hashKey: unsupported %T", v))
}

func valString(v Value) string {
	switch v := v.(type) {
	case nil:
		return "nil"
	case *Term:
		return v.S
	case string:
		return fmt.Sprintf("%q", v)
	case *ByteStr:
		var sb strings.Builder
		sb.WriteString("bytes[")
		for i, b := range v.bytes() {
			if i > 0 {
				sb.WriteString(" ")
			}
			sb.WriteString(valString(b))
		}
		sb.WriteString("]")
		return sb.String()
	case *OpaqueStr:
		return "opaque<" + v.Tag + ":" + valString(v.Payload) + ">"
	case Iface:
		if v.T == nil {
			return "nil-iface"
		}
		return "iface<" + typeKey(v.T) + ">(" + valString(v.V) + ")"
	case Struct:
		var parts []string
		for _, f := range v {
			parts = append(parts, valString(f))
		}
		return "{" + strings.Join(parts, ", ") + "}"
	case Array:
		var parts []string
		for _, f := range v {
			parts = append(parts, valString(f))
		}
		return "[" + strings.Join(parts, ", ") + "]"
	case Tuple:
		var parts []string
		for _, f := range v {
			parts = append(parts, valString(f))
		}
		return "(" + strings.Join(parts, ", ") + ")"
	case []Value:
		if v == nil {
			return "nil-slice"
		}
		var parts []string
		for _, f := range v {
			parts = append(parts, valString(f))
		}
		return "slice[" + strings.Join(parts, ", ") + "]"
	case *Value:
		if v == nil {
			return "nil-ptr"
		}
		return fmt.Sprintf("ptr(%p)", v)
	case *Closure:
		if v == nil {
			return "nil-func"
		}
		return "closure(" + v.Fn.String() + ")"
	case *ssa.Function:
		if v == nil {
			return "nil-func"
		}
		return "func(" + v.String() + ")"
	case RType:
		return "rtype(" + typeKey(v.T) + ")"
	}
	return fmt.Sprintf("%v", v)
}
