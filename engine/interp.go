package main

// Symbolic interpreter for go/ssa. Structure follows x/tools/go/ssa/interp
// (recursive callSSA, one host goroutine per interpreted goroutine, but with a
// token so exactly one runs), with symbolic scalars and solver-checked forks.

import (
	"fmt"
	"go/constant"
	"go/token"
	"go/types"
	"path/filepath"
	"slices"
	"strings"
	"sync"
	"unsafe"

	"golang.org/x/tools/go/ssa"
)

type deferred struct {
	fn    Value
	args  []Value
	instr *ssa.Defer
	tail  *deferred
}

type frame struct {
	e                *Engine
	g                *Gor
	caller           *frame
	fn               *ssa.Function
	block, prevBlock *ssa.BasicBlock
	env              []Value // indexed by layout.idx (one slot per SSA value of fn)
	layout           *fnLayout
	locals           []Value
	defers           *deferred
	result           Value
	panicking        bool
	panic            any
	phitemps         []Value
	cur              ssa.Instruction
}

func (e *Engine) constValue(c *ssa.Const) Value {
	if c.Value == nil {
		return zero(c.Type())
	}
	t := c.Type()
	if tp, ok := t.(*types.TypeParam); ok {
		_ = tp
		panic(engineErr("const of type parameter type %s", t))
	}
	if b, ok := t.Underlying().(*types.Basic); ok {
		switch {
		case b.Info()&types.IsBoolean != 0:
			return constant.BoolVal(c.Value)
		case b.Info()&types.IsString != 0:
			if c.Value.Kind() == constant.String {
				return constant.StringVal(c.Value)
			}
			return string(rune(c.Int64()))
		case b.Info()&types.IsFloat != 0:
			return c.Float64()
		case b.Info()&types.IsUnsigned != 0:
			return wrapUnsigned(c.Uint64(), intWidth(b))
		case b.Info()&types.IsInteger != 0:
			return c.Int64()
		case b.Kind() == types.UntypedNil:
			return nil
		case b.Kind() == types.UnsafePointer:
			return (*Value)(nil)
		}
	}
	panic(engineErr("constValue: unsupported constant %s of type %s", c, t))
}

// fnLayout numbers the SSA values of one function once; frames then keep their
// environment in a slice instead of a map.
type fnLayout struct {
	idx map[ssa.Value]int32
	n   int
}

var layoutCache sync.Map // *ssa.Function -> *fnLayout

func layoutOf(fn *ssa.Function) *fnLayout {
	if l, ok := layoutCache.Load(fn); ok {
		return l.(*fnLayout)
	}
	l := &fnLayout{idx: map[ssa.Value]int32{}}
	add := func(v ssa.Value) {
		if _, ok := l.idx[v]; !ok {
			l.idx[v] = int32(l.n)
			l.n++
		}
	}
	for _, p := range fn.Params {
		add(p)
	}
	for _, fv := range fn.FreeVars {
		add(fv)
	}
	for _, a := range fn.Locals {
		add(a)
	}
	for _, b := range fn.Blocks {
		for _, in := range b.Instrs {
			if v, ok := in.(ssa.Value); ok {
				add(v)
			}
		}
	}
	if fn.Recover != nil {
		for _, in := range fn.Recover.Instrs {
			if v, ok := in.(ssa.Value); ok {
				add(v)
			}
		}
	}
	layoutCache.Store(fn, l)
	return l
}

func (fr *frame) set(key ssa.Value, v Value) {
	i, ok := fr.layout.idx[key]
	if !ok {
		panic(engineErr("set: no slot for %T: %v in %s", key, key.Name(), fr.fn))
	}
	fr.env[i] = v
}

func (fr *frame) slot(key ssa.Value) Value {
	return fr.env[fr.layout.idx[key]]
}

func (fr *frame) get(key ssa.Value) Value {
	switch key := key.(type) {
	case nil:
		return nil
	case *ssa.Function:
		return key
	case *ssa.Builtin:
		return key
	case *ssa.Const:
		return fr.e.constValue(key)
	case *ssa.Global:
		return fr.e.globalAddr(key)
	}
	if i, ok := fr.layout.idx[key]; ok {
		return fr.env[i]
	}
	panic(engineErr("get: no value for %T: %v in %s", key, key.Name(), fr.fn))
}

func (e *Engine) globalAddr(g *ssa.Global) *Value {
	if r, ok := e.globals[g]; ok {
		return r
	}
	cell := new(Value)
	*cell = e.initialGlobal(g)
	e.globals[g] = cell
	return cell
}

func (fr *frame) runDefer(d *deferred) {
	var ok bool
	defer func() {
		if !ok {
			r := recover()
			fr.e.rethrowIfEngine(r)
			fr.panicking = true
			fr.panic = r
		}
	}()
	fr.e.call(fr, d.instr.Pos(), d.fn, d.args)
	ok = true
}

func (fr *frame) runDefers() {
	for d := fr.defers; d != nil; d = fr.defers {
		fr.defers = d.tail
		fr.runDefer(d)
	}
	fr.defers = nil
	if fr.panicking {
		panic(fr.panic)
	}
}

// rethrowIfEngine re-panics for host-level conditions that must not be
// visible to the interpreted program's recover().
func (e *Engine) rethrowIfEngine(r any) {
	switch r.(type) {
	case nil:
		return
	case targetPanic, goexitSignal:
		return
	}
	panic(r)
}

// annotate turns raw host panics into engine errors carrying the interpreted location.
func (e *Engine) annotate(fr *frame, r any) any {
	switch x := r.(type) {
	case targetPanic:
		if !x.origin {
			x.origin = true
			// A run-time panic raised inside a package whose initialisers are not executed
			// (the standard library, third-party code) may be an artefact of that - a pool or
			// table that was never set up - and is not evidence about the code under test.
			if p := pkgOfFn(fr.fn); p != nil && !e.initSet[p] {
				return &engineError{msg: fmt.Sprintf("run-time panic inside %s, whose package initialisers are not executed: %s%s", p.Pkg.Path(), e.panicString(x.v), e.where(fr))}
			}
		}
		return x
	case nil, pathAbort, goexitSignal:
		return r
	case *engineError:
		if !strings.Contains(x.msg, "\n  in ") {
			x.msg += e.where(fr)
		}
		return x
	}
	buf := make([]byte, 1<<12)
	n := runtimeStack(buf)
	return &engineError{msg: fmt.Sprintf("host panic: %v%s\n%s", r, e.where(fr), buf[:n])}
}

func (e *Engine) where(fr *frame) string {
	var sb strings.Builder
	for f, i := fr, 0; f != nil && i < 12; f, i = f.caller, i+1 {
		pos := "?"
		if f.cur != nil {
			pos = e.posOf(f.cur)
			sb.WriteString(fmt.Sprintf("\n  in %s: %v", pos, f.cur))
		} else {
			sb.WriteString("\n  in " + f.fn.String())
		}
	}
	return sb.String()
}

func (e *Engine) rtPanic(msg string) {
	panic(targetPanic{v: e.runtimeError(msg)})
}

func (e *Engine) runtimeError(msg string) Value {
	if e.runtimeErrorString != nil {
		return Iface{T: e.runtimeErrorString, V: msg}
	}
	return Iface{T: types.Typ[types.String], V: "runtime error: " + msg}
}

func (e *Engine) step(fr *frame, instr ssa.Instruction) {
	e.steps++
	e.stats.Instrs++
	if e.steps > e.budget {
		e.budgetExceeded(fr, instr)
	}
}

// visitInstr interprets one instruction. Returns true on Return.
func (e *Engine) visitInstr(fr *frame, instr ssa.Instruction) (ret bool, jumped bool) {
	e.step(fr, instr)
	fr.cur = instr
	switch instr := instr.(type) {
	case *ssa.DebugRef:

	case *ssa.UnOp:
		x := fr.get(instr.X)
		switch instr.Op {
		case token.MUL:
			fr.set(instr, e.load(x.(*Value), instr))
		case token.ARROW:
			fr.g.siteOK = e.siteOK(instr.Pos())
			v, ok := e.chanRecv(fr.g, x.(*Chan), instr.X.Type().Underlying().(*types.Chan).Elem())
			if instr.CommaOk {
				fr.set(instr, Tuple{v, ok})
			} else {
				fr.set(instr, v)
			}
		default:
			fr.set(instr, e.unop(instr.Op, instr.X.Type(), x))
		}

	case *ssa.BinOp:
		fr.set(instr, e.binop(instr.Op, instr.X.Type(), fr.get(instr.X), fr.get(instr.Y)))

	case *ssa.Call:
		fn, args := e.prepareCall(fr, &instr.Call)
		fr.set(instr, e.call(fr, instr.Pos(), fn, args))

	case *ssa.ChangeInterface:
		fr.set(instr, fr.get(instr.X))

	case *ssa.ChangeType:
		fr.set(instr, fr.get(instr.X))

	case *ssa.Convert:
		fr.set(instr, e.conv(instr.Type(), instr.X.Type(), fr.get(instr.X)))

	case *ssa.MultiConvert:
		fr.set(instr, e.conv(instr.Type(), instr.X.Type(), fr.get(instr.X)))

	case *ssa.SliceToArrayPointer:
		x := fr.get(instr.X).([]Value)
		n := instr.Type().Underlying().(*types.Pointer).Elem().Underlying().(*types.Array).Len()
		if int64(len(x)) < n {
			e.rtPanic("cannot convert slice to array pointer: length too short")
		}
		// arrays are values; share backing by wrapping (approximation: copy)
		var cell Value = Array(x[:n:n])
		fr.set(instr, &cell)

	case *ssa.MakeInterface:
		fr.set(instr, Iface{T: instr.X.Type(), V: copyVal(fr.get(instr.X))})

	case *ssa.Extract:
		fr.set(instr, fr.get(instr.Tuple).(Tuple)[instr.Index])

	case *ssa.Slice:
		fr.set(instr, e.sliceOp(fr, instr))

	case *ssa.Return:
		switch len(instr.Results) {
		case 0:
		case 1:
			fr.result = fr.get(instr.Results[0])
		default:
			res := make(Tuple, 0, len(instr.Results))
			for _, r := range instr.Results {
				res = append(res, fr.get(r))
			}
			fr.result = res
		}
		fr.block = nil
		return true, false

	case *ssa.RunDefers:
		fr.runDefers()

	case *ssa.Panic:
		panic(targetPanic{v: fr.get(instr.X)})

	case *ssa.Send:
		fr.g.siteOK = e.siteOK(instr.Pos())
		e.chanSend(fr.g, fr.get(instr.Chan).(*Chan), fr.get(instr.X))

	case *ssa.Store:
		e.store(fr.get(instr.Addr).(*Value), fr.get(instr.Val), instr)

	case *ssa.If:
		succ := 1
		if e.branch(fr.get(instr.Cond)) {
			succ = 0
		}
		fr.prevBlock, fr.block = fr.block, fr.block.Succs[succ]
		return false, true

	case *ssa.Jump:
		fr.prevBlock, fr.block = fr.block, fr.block.Succs[0]
		return false, true

	case *ssa.Defer:
		fn, args := e.prepareCall(fr, &instr.Call)
		defers := &fr.defers
		if instr.DeferStack != nil {
			if into := fr.get(instr.DeferStack); into != nil {
				defers = into.(**deferred)
			}
		}
		*defers = &deferred{fn: fn, args: args, instr: instr, tail: *defers}

	case *ssa.Go:
		fn, args := e.prepareCall(fr, &instr.Call)
		fr.g.siteOK = e.siteOK(instr.Pos())
		e.spawn(fr.g, fn, args, instr.Pos())

	case *ssa.MakeChan:
		n := e.concretizeInt(fr.get(instr.Size), "chan size")
		fr.set(instr, e.newChan(int(n)))

	case *ssa.Alloc:
		var addr *Value
		if instr.Heap {
			addr = new(Value)
			fr.set(instr, addr)
		} else {
			addr = fr.slot(instr).(*Value)
		}
		*addr = zero(deref(instr.Type()))

	case *ssa.MakeSlice:
		c := e.concretizeInt(fr.get(instr.Cap), "make cap")
		l := e.concretizeInt(fr.get(instr.Len), "make len")
		if l < 0 || c < l || c > 1<<47 {
			// (more than 2^47 elements exceeds the address space: the runtime refuses)
			e.rtPanic("makeslice: len out of range")
		}
		if c > 1<<24 {
			panic(engineErr("make of %d elements is beyond what the engine allocates", c))
		}
		s := make([]Value, c)
		tElt := instr.Type().Underlying().(*types.Slice).Elem()
		for i := range s {
			s[i] = zero(tElt)
		}
		fr.set(instr, s[:l])

	case *ssa.MakeMap:
		fr.set(instr, newMap(instr.Type().Underlying().(*types.Map).Key()))

	case *ssa.Range:
		fr.set(instr, e.rangeIter(fr.get(instr.X), instr.X.Type()))

	case *ssa.Next:
		fr.set(instr, fr.get(instr.Iter).(iter).next(e))

	case *ssa.FieldAddr:
		p := fr.get(instr.X).(*Value)
		if p == nil {
			e.rtPanic("invalid memory address or nil pointer dereference")
		}
		fr.set(instr, &(*p).(Struct)[instr.Field])

	case *ssa.Field:
		fr.set(instr, fr.get(instr.X).(Struct)[instr.Field])

	case *ssa.IndexAddr:
		x := fr.get(instr.X)
		idx := e.concretizeIndex(fr.get(instr.Index))
		switch x := x.(type) {
		case []Value:
			if idx < 0 || idx >= int64(len(x)) {
				e.rtPanic(fmt.Sprintf("index out of range [%d] with length %d", idx, len(x)))
			}
			fr.set(instr, &x[idx])
		case *Value:
			if x == nil {
				e.rtPanic("invalid memory address or nil pointer dereference")
			}
			a := (*x).(Array)
			if idx < 0 || idx >= int64(len(a)) {
				e.rtPanic(fmt.Sprintf("index out of range [%d] with length %d", idx, len(a)))
			}
			fr.set(instr, &a[idx])
		default:
			panic(engineErr("IndexAddr on %T", x))
		}

	case *ssa.Index:
		x := fr.get(instr.X)
		idx := e.concretizeIndex(fr.get(instr.Index))
		switch x := normStr(x).(type) {
		case Array:
			if idx < 0 || idx >= int64(len(x)) {
				e.rtPanic("index out of range")
			}
			fr.set(instr, x[idx])
		case string:
			if idx < 0 || idx >= int64(len(x)) {
				e.rtPanic("index out of range")
			}
			fr.set(instr, uint64(x[idx]))
		case *ByteStr:
			if idx < 0 || idx >= int64(x.Len()) {
				e.rtPanic("index out of range")
			}
			b := x.bytes()[idx]
			if t, ok := b.(*Term); ok && t.Sort.K == SInt {
				b = e.simplify(e.ts.Int2BV(t, 8), nil)
			}
			fr.set(instr, b)
		default:
			panic(engineErr("Index on %T", x))
		}

	case *ssa.Lookup:
		fr.set(instr, e.lookup(instr, fr.get(instr.X), fr.get(instr.Index)))

	case *ssa.MapUpdate:
		m := fr.get(instr.Map).(*Map)
		if m == nil {
			e.rtPanic("assignment to entry in nil map")
		}
		e.raceWriteObj(m, instr)
		m.insert(e, fr.get(instr.Key), copyVal(fr.get(instr.Value)))

	case *ssa.TypeAssert:
		fr.set(instr, e.typeAssert(instr, fr.get(instr.X).(Iface)))

	case *ssa.MakeClosure:
		bindings := make([]Value, 0, len(instr.Bindings))
		for _, b := range instr.Bindings {
			bindings = append(bindings, fr.get(b))
		}
		fr.set(instr, &Closure{Fn: instr.Fn.(*ssa.Function), Env: bindings})

	case *ssa.Select:
		fr.g.siteOK = e.siteOK(instr.Pos())
		fr.set(instr, e.selectOp(fr, instr))

	default:
		panic(engineErr("unexpected instruction %T at %s", instr, e.pos(instr.Pos())))
	}
	return false, false
}

var opaquePrefixes = []string{
	"go.opentelemetry.io/otel/attribute.",
	"go.opentelemetry.io/otel/metric.With",
}

func deref(t types.Type) types.Type {
	if p, ok := t.Underlying().(*types.Pointer); ok {
		return p.Elem()
	}
	panic(engineErr("deref of non-pointer %s", t))
}

func (e *Engine) pos(p token.Pos) string {
	if p == token.NoPos {
		return "?"
	}
	return e.prog.Fset.Position(p).String()
}

func (e *Engine) sliceOp(fr *frame, instr *ssa.Slice) Value {
	x := fr.get(instr.X)
	var lo, hi, max int64 = 0, -1, -1
	if instr.Low != nil {
		lo = e.concretizeIndex(fr.get(instr.Low))
	}
	if instr.High != nil {
		hi = e.concretizeIndex(fr.get(instr.High))
	}
	if instr.Max != nil {
		max = e.concretizeIndex(fr.get(instr.Max))
	}
	switch x := normStr(x).(type) {
	case string:
		if hi < 0 {
			hi = int64(len(x))
		}
		if lo < 0 || lo > hi || hi > int64(len(x)) {
			e.rtPanic("slice bounds out of range")
		}
		return x[lo:hi]
	case *ByteStr:
		if hi < 0 {
			hi = int64(x.Len())
		}
		if lo < 0 || lo > hi || hi > int64(x.Len()) {
			e.rtPanic("slice bounds out of range")
		}
		return normStr(&ByteStr{B: x.bytes()[lo:hi:hi]})
	case []Value:
		if hi < 0 {
			hi = int64(len(x))
		}
		if max < 0 {
			max = int64(cap(x))
		}
		if lo < 0 || lo > hi || hi > max || max > int64(cap(x)) {
			e.rtPanic("slice bounds out of range")
		}
		if x == nil {
			return x
		}
		return x[lo:hi:max]
	case *Value:
		if x == nil {
			e.rtPanic("invalid memory address or nil pointer dereference")
		}
		a := []Value((*x).(Array))
		if hi < 0 {
			hi = int64(len(a))
		}
		if max < 0 {
			max = int64(cap(a))
		}
		if lo < 0 || lo > hi || hi > max || max > int64(len(a)) {
			e.rtPanic("slice bounds out of range")
		}
		return a[lo:hi:max]
	}
	panic(engineErr("slice of %s", describeValue(x)))
}

func (e *Engine) prepareCall(fr *frame, call *ssa.CallCommon) (fn Value, args []Value) {
	v := fr.get(call.Value)
	if call.Method == nil {
		fn = v
	} else {
		recv := v.(Iface)
		if recv.T == nil {
			e.rtPanic("invalid memory address or nil pointer dereference (method call on nil interface)")
		}
		if rt, ok := recv.V.(RType); ok {
			// reflect.Type method on our rtype
			fn = &rtypeMethod{name: call.Method.Name(), recv: rt}
		} else {
			f := e.prog.LookupMethod(recv.T, call.Method.Pkg(), call.Method.Name())
			if f == nil {
				panic(engineErr("method set of %s lacks %s", recv.T, call.Method))
			}
			fn = f
			args = append(args, recv.V)
		}
	}
	for _, a := range call.Args {
		args = append(args, fr.get(a))
	}
	return
}

type rtypeMethod struct {
	name string
	recv RType
}

func (e *Engine) call(caller *frame, pos token.Pos, fn Value, args []Value) Value {
	switch fn := fn.(type) {
	case *ssa.Function:
		if fn == nil {
			e.rtPanic("call of nil function")
		}
		return e.callSSA(caller, pos, fn, args, nil)
	case *Closure:
		if fn == nil {
			e.rtPanic("call of nil function")
		}
		return e.callSSA(caller, pos, fn.Fn, args, fn.Env)
	case *ssa.Builtin:
		return e.callBuiltin(caller, pos, fn, args)
	case *rtypeMethod:
		return e.callRTypeMethod(fn, args)
	case nil:
		e.rtPanic("call of nil function")
	}
	panic(engineErr("cannot call %T", fn))
}

var funcKeyCache sync.Map // *ssa.Function -> string

func funcKey(fn *ssa.Function) string {
	if k, ok := funcKeyCache.Load(fn); ok {
		return k.(string)
	}
	var k string
	if o := fn.Origin(); o != nil {
		k = o.String()
	} else {
		k = fn.String()
	}
	funcKeyCache.Store(fn, k)
	return k
}

func (e *Engine) callSSA(caller *frame, pos token.Pos, fn *ssa.Function, args []Value, env []Value) Value {
	var g *Gor
	if caller != nil {
		g = caller.g
	} else {
		g = e.cur
	}
	fr := &frame{e: e, g: g, caller: caller, fn: fn}
	if fn.Pkg != nil && fn.Name() == "init" && fn.Synthetic != "" && !e.initSet[fn.Pkg] {
		return nil // initialisers of packages outside the init set are not executed
	}
	key := funcKey(fn)
	if ext, ok := e.externals[key]; ok {
		e.noteStub(key)
		if g != nil {
			g.siteOK = e.siteOK(pos)
		}
		return ext(fr, args)
	}
	// option constructors whose values no harness observes: opaque (zero result)
	for _, pre := range opaquePrefixes {
		if strings.HasPrefix(key, pre) {
			e.noteStub(pre + "* (opaque)")
			return zeroResults(fn)
		}
	}
	if fn.Blocks == nil || e.redirects[key] != nil {
		// intrinsic of the harness runtime?
		if in, ok := e.intrinsics[fn.Name()]; ok && (fn.Pkg == nil || e.isHarnessPkg(fn.Pkg)) && fn.Blocks == nil {
			if g != nil {
				g.siteOK = e.siteOK(pos)
			}
			return in(fr, args)
		}
		if m := e.redirects[key]; m != nil {
			e.noteStub(key + " -> " + m.Name())
			return e.callSSA(caller, pos, m, args, nil)
		}
		panic(engineErr("unsupported external function %s (called at %s)", key, e.pos(pos)))
	}
	if fn.TypeParams().Len() > 0 && len(fn.TypeArgs()) == 0 {
		panic(engineErr("uninstantiated generic function %s", fn))
	}
	if e.encodedFns != nil && fn.Pkg != nil {
		e.noteEncoded(fn)
	} else if e.encodedFns != nil {
		e.noteEncoded(fn)
	}
	e.depth++
	if e.depth > 2000 {
		panic(engineErr("call depth exceeded in %s", fn))
	}
	defer func() { e.depth-- }()

	fr.layout = layoutOf(fn)
	fr.env = make([]Value, fr.layout.n)
	fr.block = fn.Blocks[0]
	fr.locals = make([]Value, len(fn.Locals))
	for i, l := range fn.Locals {
		fr.locals[i] = zero(deref(l.Type()))
		fr.set(l, &fr.locals[i])
	}
	for i, p := range fn.Params {
		fr.set(p, args[i])
	}
	for i, fv := range fn.FreeVars {
		fr.set(fv, env[i])
	}
	for fr.block != nil {
		e.runFrame(fr)
	}
	return fr.result
}

func (e *Engine) runFrame(fr *frame) {
	defer func() {
		if fr.block == nil {
			return // normal return
		}
		r := recover()
		r = e.annotate(fr, r)
		e.rethrowIfEngine(r)
		fr.panicking = true
		fr.panic = r
		fr.runDefers()
		fr.block = fr.fn.Recover
		if fr.block == nil {
			// recovered in a function without named results: zero results
			fr.result = zeroResults(fr.fn)
		}
	}()
	for {
		nonPhis := e.executePhis(fr)
		for _, instr := range nonPhis {
			ret, jumped := e.visitInstr(fr, instr)
			if ret {
				return
			}
			if jumped {
				break
			}
		}
	}
}

func zeroResults(fn *ssa.Function) Value {
	res := fn.Signature.Results()
	switch res.Len() {
	case 0:
		return nil
	case 1:
		return zero(res.At(0).Type())
	}
	return zero(res)
}

func (e *Engine) executePhis(fr *frame) []ssa.Instruction {
	firstNonPhi := -1
	for i, instr := range fr.block.Instrs {
		if _, ok := instr.(*ssa.Phi); !ok {
			firstNonPhi = i
			break
		}
	}
	nonPhis := fr.block.Instrs[firstNonPhi:]
	if firstNonPhi > 0 {
		phis := fr.block.Instrs[:firstNonPhi]
		predIndex := slices.Index(fr.block.Preds, fr.prevBlock)
		fr.phitemps = fr.phitemps[:0]
		for _, phi := range phis {
			phi := phi.(*ssa.Phi)
			fr.phitemps = append(fr.phitemps, fr.get(phi.Edges[predIndex]))
		}
		for i, phi := range phis {
			fr.set(phi.(*ssa.Phi), fr.phitemps[i])
		}
	}
	return nonPhis
}

// goexitSignal unwinds a goroutine that called runtime.Goexit: deferred calls run, recover() does not see it.
type goexitSignal struct{}

func (e *Engine) doRecover(caller *frame) Value {
	if caller != nil && caller.caller != nil {
		if _, exiting := caller.caller.panic.(goexitSignal); exiting {
			return Iface{}
		}
	}
	if caller != nil && !caller.panicking && caller.caller != nil && caller.caller.panicking {
		caller.caller.panicking = false
		p := caller.caller.panic
		caller.caller.panic = nil
		switch p := p.(type) {
		case targetPanic:
			return p.v
		default:
			panic(engineErr("unexpected host panic %T in recover: %v", p, p))
		}
	}
	return Iface{}
}

// ---- memory access with race monitoring

func (e *Engine) load(p *Value, at ssa.Instruction) Value {
	if p == nil {
		e.rtPanic("invalid memory address or nil pointer dereference")
	}
	if e.raceOn {
		e.raceRead(p, at)
	}
	return copyVal(*p)
}

func (e *Engine) store(p *Value, v Value, at ssa.Instruction) {
	if p == nil {
		e.rtPanic("invalid memory address or nil pointer dereference")
	}
	if e.raceOn {
		e.raceWrite(p, at)
	}
	*p = copyVal(v)
}

// ---- type assertion

func (e *Engine) typeAssert(instr *ssa.TypeAssert, itf Iface) Value {
	var v Value
	err := ""
	if idst, ok := instr.AssertedType.Underlying().(*types.Interface); ok {
		v = itf
		err = e.checkInterface(idst, itf)
	} else if itf.T != nil && types.Identical(itf.T, instr.AssertedType) {
		v = copyVal(itf.V)
	} else {
		err = fmt.Sprintf("interface conversion: interface is %s, not %s", typeKey(itf.T), instr.AssertedType)
	}
	if _, isTP := instr.AssertedType.(*types.TypeParam); isTP {
		panic(engineErr("type assertion to type parameter"))
	}
	if err != "" {
		if !instr.CommaOk {
			e.rtPanic(err)
		}
		return Tuple{zero(instr.AssertedType), false}
	}
	if instr.CommaOk {
		return Tuple{v, true}
	}
	return v
}

func (e *Engine) checkInterface(itype *types.Interface, x Iface) string {
	if x.T == nil {
		return "interface conversion: interface is nil"
	}
	if _, ok := x.V.(RType); ok {
		return "" // reflect.Type
	}
	if meth, _ := types.MissingMethod(x.T, itype, true); meth != nil {
		return fmt.Sprintf("interface conversion: %v is not %v: missing method %s", x.T, itype, meth.Name())
	}
	return ""
}

// ---- lookup

func (e *Engine) lookup(instr *ssa.Lookup, x, idx Value) Value {
	switch x := normStr(x).(type) {
	case *Map:
		var v Value
		var ok bool
		if x != nil {
			e.raceReadObj(x, instr)
			v, ok = x.lookup(e, idx)
		}
		if !ok {
			v = zero(instr.X.Type().Underlying().(*types.Map).Elem())
		} else {
			v = copyVal(v)
		}
		if instr.CommaOk {
			return Tuple{v, ok}
		}
		return v
	case string:
		i := e.concretizeIndex(idx)
		if i < 0 || i >= int64(len(x)) {
			e.rtPanic("index out of range")
		}
		return uint64(x[i])
	case *ByteStr:
		i := e.concretizeIndex(idx)
		if i < 0 || i >= int64(x.Len()) {
			e.rtPanic("index out of range")
		}
		return x.bytes()[i]
	}
	panic(engineErr("lookup on %s", describeValue(x)))
}

// ---- builtins

func (e *Engine) callBuiltin(caller *frame, pos token.Pos, fn *ssa.Builtin, args []Value) Value {
	switch fn.Name() {
	case "append":
		if len(args) == 1 {
			return args[0]
		}
		dst := args[0].([]Value)
		if isStringy(args[1]) {
			src := e.stringToBytes(args[1]).([]Value)
			return append(dst, src...)
		}
		src := args[1].([]Value)
		if len(src) == 0 {
			return dst
		}
		if e.raceOn {
			for i := range src {
				e.raceRead(&src[i], nil)
			}
		}
		old := len(dst)
		res := dst
		for _, s := range src {
			res = append(res, copyVal(s))
		}
		if e.raceOn {
			for i := old; i < len(res); i++ {
				e.raceWrite(&res[i], nil)
			}
		}
		return res

	case "copy":
		dst := args[0].([]Value)
		var src []Value
		if isStringy(args[1]) {
			src = e.stringToBytes(args[1]).([]Value)
		} else {
			src = args[1].([]Value)
		}
		n := len(dst)
		if len(src) < n {
			n = len(src)
		}
		// memmove semantics
		tmp := make([]Value, n)
		for i := 0; i < n; i++ {
			if e.raceOn {
				e.raceRead(&src[i], nil)
			}
			tmp[i] = copyVal(src[i])
		}
		for i := 0; i < n; i++ {
			if e.raceOn {
				e.raceWrite(&dst[i], nil)
			}
			dst[i] = tmp[i]
		}
		return int64(n)

	case "close":
		caller.g.siteOK = e.siteOK(pos)
		e.chanClose(caller.g, args[0].(*Chan))
		return nil

	case "delete":
		m := args[0].(*Map)
		if m != nil {
			e.raceWriteObj(m, nil)
			m.delete(e, args[1])
		}
		return nil

	case "clear":
		switch x := args[0].(type) {
		case *Map:
			if x != nil {
				x.clear()
			}
		case []Value:
			for i := range x {
				x[i] = zeroLike(x[i])
			}
		}
		return nil

	case "print", "println":
		return nil

	case "len":
		switch x := args[0].(type) {
		case string, *ByteStr, *Term:
			return e.strLen(normStr(x))
		case *OpaqueStr:
			panic(engineErr("len of opaque string"))
		case Array:
			return int64(len(x))
		case *Value:
			if x == nil {
				return int64(0)
			}
			return int64(len((*x).(Array)))
		case []Value:
			if len(x) == 1 {
				if d, ok := x[0].(*Doc); ok {
					return e.docLen(d)
				}
			}
			return int64(len(x))
		case *Map:
			if x == nil {
				return int64(0)
			}
			e.raceReadObj(x, nil)
			return int64(x.len())
		case *Chan:
			if x == nil {
				return int64(0)
			}
			return int64(len(x.buf))
		}
		panic(engineErr("len of %T", args[0]))

	case "cap":
		switch x := args[0].(type) {
		case Array:
			return int64(len(x))
		case *Value:
			return int64(len((*x).(Array)))
		case []Value:
			return int64(cap(x))
		case *Chan:
			return int64(x.cap)
		}
		panic(engineErr("cap of %T", args[0]))

	case "min", "max":
		acc := args[0]
		for _, a := range args[1:] {
			var less Value
			if fn.Name() == "min" {
				less = e.binop(token.LSS, typeOfScalar(a), a, acc)
			} else {
				less = e.binop(token.GTR, typeOfScalar(a), a, acc)
			}
			if e.branch(less) {
				acc = a
			}
		}
		return acc

	case "panic":
		panic(targetPanic{v: args[0]})

	case "recover":
		return e.doRecover(caller)

	case "ssa:wrapnilchk":
		recv := args[0]
		if p, ok := recv.(*Value); ok && p == nil {
			e.rtPanic(fmt.Sprintf("value method %s.%s called using nil *%s pointer", args[1], args[2], args[1]))
		}
		return recv

	case "String": // unsafe.String(ptr *byte, len): the bytes behind ptr as a string
		n := e.concretizeInt(args[1], "unsafe.String len")
		p, _ := args[0].(*Value)
		if n == 0 {
			return ""
		}
		if p == nil || n < 0 || n > 1<<24 {
			e.rtPanic("unsafe.String: ptr is nil and len is not zero")
		}
		// element pointers of the engine's slices point into a host []Value: take the view back
		return e.bytesToString(append([]Value(nil), unsafe.Slice(p, int(n))...))

	case "ssa:deferstack":
		return &caller.defers
	}
	panic(engineErr("unsupported builtin %s", fn.Name()))
}

func typeOfScalar(v Value) types.Type {
	switch v := v.(type) {
	case int64:
		return types.Typ[types.Int64]
	case uint64:
		return types.Typ[types.Uint64]
	case float64:
		return types.Typ[types.Float64]
	case string:
		return types.Typ[types.String]
	case *Term:
		switch v.Sort.K {
		case SInt:
			return types.Typ[types.Int64]
		case SBV:
			return types.Typ[types.Uint64]
		case SStr:
			return types.Typ[types.String]
		}
	}
	panic(engineErr("typeOfScalar %T", v))
}

func zeroLike(v Value) Value {
	switch v := v.(type) {
	case bool, *Term:
		if t, ok := v.(*Term); ok {
			switch t.Sort.K {
			case SInt:
				return int64(0)
			case SBV:
				return uint64(0)
			case SStr:
				return ""
			}
		}
		return false
	case int64:
		return int64(0)
	case uint64:
		return uint64(0)
	case float64:
		return float64(0)
	case string, *ByteStr, *OpaqueStr:
		return ""
	case *Value:
		return (*Value)(nil)
	case []Value:
		return []Value(nil)
	case *Map:
		return (*Map)(nil)
	case *Chan:
		return (*Chan)(nil)
	case Iface:
		return Iface{}
	case Struct:
		c := make(Struct, len(v))
		for i := range v {
			c[i] = zeroLike(v[i])
		}
		return c
	case Array:
		c := make(Array, len(v))
		for i := range v {
			c[i] = zeroLike(v[i])
		}
		return c
	}
	return nil
}

// ---- range

type iter interface {
	next(e *Engine) Tuple
}

type stringIter struct {
	s string
	i int
}

func (it *stringIter) next(e *Engine) Tuple {
	if it.i >= len(it.s) {
		return Tuple{false, int64(0), int64(0)}
	}
	for j, r := range it.s[it.i:] {
		_ = j
		start := it.i
		sz := len(string(r))
		if r == 0xFFFD {
			sz = 1
		}
		it.i += sz
		return Tuple{true, int64(start), int64(r)}
	}
	return Tuple{false, int64(0), int64(0)}
}

type mapIter struct {
	m    *Map
	keys []Value
	i    int
}

func (it *mapIter) next(e *Engine) Tuple {
	for it.i < len(it.keys) {
		en := it.keys[it.i].(*mapEntry)
		it.i++
		if !en.dead {
			return Tuple{true, en.k, copyVal(en.v)}
		}
	}
	return Tuple{false, nil, nil}
}

func (e *Engine) rangeIter(x Value, t types.Type) iter {
	switch x := normStr(x).(type) {
	case *Map:
		if x == nil {
			return &mapIter{}
		}
		e.raceReadObj(x, nil)
		return &mapIter{m: x, keys: x.liveKeys()}
	case string:
		return &stringIter{s: x}
	}
	panic(engineErr("range over %s", describeValue(x)))
}

func (e *Engine) isHarnessPkg(p *ssa.Package) bool {
	return p != nil && e.harnessPkgs[p]
}

func shortFn(fn *ssa.Function) string {
	s := fn.String()
	s = strings.ReplaceAll(s, "github.com/jilio/ebu", "ebu")
	return s
}

// siteOK: is pos inside code that the native replay instruments (the package
// under test and the harness files, not models and not the standard library)?
func (e *Engine) siteOK(pos token.Pos) bool {
	if pos == token.NoPos {
		return false
	}
	if !e.pointTrace {
		if v, ok := e.sitePosCache[pos]; ok {
			return v
		}
		file := e.prog.Fset.Position(pos).Filename
		v := filepath.Dir(file) == e.pkgDir && !strings.HasPrefix(filepath.Base(file), "zz_verif_m_") && !strings.HasPrefix(filepath.Base(file), "zz_verif_rt_")
		e.sitePosCache[pos] = v
		return v
	}
	file := e.prog.Fset.Position(pos).Filename
	if v, ok := e.siteCache[file]; ok {
		if e.pointTrace && e.cur != nil {
			e.cur.sitePos = e.pos(pos)
		}
		return v
	}
	base := filepath.Base(file)
	if e.pointTrace && e.cur != nil {
		e.cur.sitePos = e.pos(pos)
	}
	ok := filepath.Dir(file) == e.pkgDir && !strings.HasPrefix(base, "zz_verif_m_") && !strings.HasPrefix(base, "zz_verif_rt_")
	e.siteCache[file] = ok
	return ok
}

// pkgOfFn: the package a function (or the generic it was instantiated from, or
// the function a closure was declared in) belongs to.
func pkgOfFn(fn *ssa.Function) *ssa.Package {
	for f := fn; f != nil; f = f.Parent() {
		if f.Pkg != nil {
			return f.Pkg
		}
		if o := f.Origin(); o != nil && o.Pkg != nil {
			return o.Pkg
		}
	}
	return nil
}
