package main

// Insertion-ordered maps with solver-split symbolic keys, and channels.

import (
	"go/types"
)

type mapEntry struct {
	k, v Value
	dead bool
}

type Map struct {
	keyT    types.Type
	entries []*mapEntry
	idx     map[string]*mapEntry // concrete keys
	nsym    int                  // live entries with symbolic keys
	nlive   int
}

func newMap(keyT types.Type) *Map {
	return &Map{keyT: keyT, idx: map[string]*mapEntry{}}
}

func (m *Map) len() int { return m.nlive }

func (m *Map) find(e *Engine, k Value) *mapEntry {
	hk, conc := hashKey(k)
	if conc && m.nsym == 0 {
		return m.idx[hk]
	}
	if conc {
		if en := m.idx[hk]; en != nil {
			return en
		}
	}
	// compare against every live entry that could match
	for _, en := range m.entries {
		if en.dead {
			continue
		}
		if conc {
			if _, c2 := hashKey(en.k); c2 {
				continue // distinct concrete keys
			}
		}
		if e.branch(e.equals(m.keyT, k, en.k)) {
			return en
		}
	}
	return nil
}

func (m *Map) lookup(e *Engine, k Value) (Value, bool) {
	if en := m.find(e, k); en != nil {
		return en.v, true
	}
	return nil, false
}

func (m *Map) lookupExact(k Value) (Value, bool) {
	if en, ok := k.(*mapEntry); ok && !en.dead {
		return en.v, true
	}
	return nil, false
}

func (m *Map) insert(e *Engine, k, v Value) {
	if en := m.find(e, k); en != nil {
		en.v = v
		return
	}
	en := &mapEntry{k: k, v: v}
	m.entries = append(m.entries, en)
	m.nlive++
	if hk, conc := hashKey(k); conc {
		m.idx[hk] = en
	} else {
		m.nsym++
	}
}

func (m *Map) delete(e *Engine, k Value) {
	en := m.find(e, k)
	if en == nil {
		return
	}
	en.dead = true
	m.nlive--
	if hk, conc := hashKey(en.k); conc {
		delete(m.idx, hk)
	} else {
		m.nsym--
	}
	// compact
	out := m.entries[:0]
	for _, x := range m.entries {
		if !x.dead {
			out = append(out, x)
		}
	}
	m.entries = out
}

func (m *Map) clear() {
	for _, en := range m.entries {
		en.dead = true
	}
	m.entries = nil
	m.idx = map[string]*mapEntry{}
	m.nsym, m.nlive = 0, 0
}

// liveKeys returns the entries themselves (used as iteration handles).
func (m *Map) liveKeys() []Value {
	out := make([]Value, 0, len(m.entries))
	for _, en := range m.entries {
		if !en.dead {
			out = append(out, en)
		}
	}
	return out
}

// ---- channels

type sendItem struct {
	v     Value
	taken bool
}

type Chan struct {
	buf    []Value
	cap    int
	closed bool
	sendq  []*sendItem
	recvW  int // receivers blocked
	vc     vclock
}

func (e *Engine) newChan(n int) *Chan { return &Chan{cap: n} }

func (c *Chan) recvReady() bool {
	return len(c.buf) > 0 || len(c.sendq) > 0 || c.closed
}

func (c *Chan) sendReady() bool {
	return c.closed || len(c.buf) < c.cap || (c.cap == 0 && c.recvW > 0)
}

func (e *Engine) chanRecv(g *Gor, c *Chan, elemT types.Type) (Value, Value) {
	e.yield(g, "chan recv")
	if c == nil {
		e.blockOn(g, func() bool { return false }, "recv on nil chan")
	}
	if !c.recvReady() {
		c.recvW++
		e.blockOn(g, c.recvReady, "chan recv")
		c.recvW--
	}
	e.acquire(g, &c.vc)
	if len(c.buf) > 0 {
		v := c.buf[0]
		c.buf = c.buf[1:]
		return v, true
	}
	if len(c.sendq) > 0 {
		it := c.sendq[0]
		c.sendq = c.sendq[1:]
		it.taken = true
		return it.v, true
	}
	return zero(elemT), false
}

func (e *Engine) chanSend(g *Gor, c *Chan, v Value) {
	e.yield(g, "chan send")
	if c == nil {
		e.blockOn(g, func() bool { return false }, "send on nil chan")
	}
	if c.closed {
		e.rtPanic("send on closed channel")
	}
	e.release(g, &c.vc)
	if c.cap > 0 {
		if len(c.buf) >= c.cap {
			e.blockOn(g, func() bool { return len(c.buf) < c.cap || c.closed }, "chan send")
			if c.closed {
				e.rtPanic("send on closed channel")
			}
		}
		c.buf = append(c.buf, copyVal(v))
		return
	}
	it := &sendItem{v: copyVal(v)}
	c.sendq = append(c.sendq, it)
	e.blockOn(g, func() bool { return it.taken || c.closed }, "chan send (unbuffered)")
	if !it.taken {
		e.rtPanic("send on closed channel")
	}
}

func (e *Engine) chanClose(g *Gor, c *Chan) {
	e.yield(g, "chan close")
	if c == nil {
		e.rtPanic("close of nil channel")
	}
	if c.closed {
		e.rtPanic("close of closed channel")
	}
	e.release(g, &c.vc)
	c.closed = true
}
