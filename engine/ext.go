package main

// Native stubs for the standard-library boundary, and the harness runtime
// intrinsics (vInt, vAssert, ...).

import (
	"bytes"
	"fmt"
	"go/token"
	"go/types"
	"math"
	"math/big"
	"regexp"
	"runtime"
	"strconv"
	"strings"

	"golang.org/x/tools/go/ssa"
)

func runtimeStack(buf []byte) int { return runtime.Stack(buf, false) }

type extFn = func(fr *frame, args []Value) Value

func (e *Engine) installExternals() {
	e.externals = map[string]extFn{}
	e.intrinsics = map[string]extFn{}
	x := e.externals

	// ---- sync
	x["(*sync.Mutex).Lock"] = func(fr *frame, a []Value) Value { e.mutexLock(fr.g, a[0].(*Value)); return nil }
	x["(*sync.Mutex).Unlock"] = func(fr *frame, a []Value) Value { e.mutexUnlock(fr.g, a[0].(*Value)); return nil }
	x["(*sync.Mutex).TryLock"] = func(fr *frame, a []Value) Value { return e.mutexTryLock(fr.g, a[0].(*Value)) }
	x["(*sync.RWMutex).Lock"] = func(fr *frame, a []Value) Value { e.rwLock(fr.g, a[0].(*Value)); return nil }
	x["(*sync.RWMutex).Unlock"] = func(fr *frame, a []Value) Value { e.rwUnlock(fr.g, a[0].(*Value)); return nil }
	x["(*sync.RWMutex).RLock"] = func(fr *frame, a []Value) Value { e.rwRLock(fr.g, a[0].(*Value)); return nil }
	x["(*sync.RWMutex).RUnlock"] = func(fr *frame, a []Value) Value { e.rwRUnlock(fr.g, a[0].(*Value)); return nil }
	x["(*sync.RWMutex).TryLock"] = func(fr *frame, a []Value) Value { return e.rwTryLock(fr.g, a[0].(*Value)) }
	x["(*sync.RWMutex).TryRLock"] = func(fr *frame, a []Value) Value { return e.rwTryRLock(fr.g, a[0].(*Value)) }
	x["(*sync.WaitGroup).Add"] = func(fr *frame, a []Value) Value { e.wgAdd(fr.g, a[0].(*Value), a[1]); return nil }
	x["(*sync.WaitGroup).Done"] = func(fr *frame, a []Value) Value { e.wgAdd(fr.g, a[0].(*Value), int64(-1)); return nil }
	x["(*sync.WaitGroup).Wait"] = func(fr *frame, a []Value) Value { e.wgWait(fr.g, a[0].(*Value)); return nil }
	x["(*sync.Cond).Wait"] = func(fr *frame, a []Value) Value { e.condWait(fr, a[0].(*Value)); return nil }
	x["(*sync.Cond).Signal"] = func(fr *frame, a []Value) Value { e.condSignal(fr, a[0].(*Value), false); return nil }
	x["(*sync.Cond).Broadcast"] = func(fr *frame, a []Value) Value { e.condSignal(fr, a[0].(*Value), true); return nil }
	x["(*sync.Once).Do"] = func(fr *frame, a []Value) Value {
		p := a[0].(*Value)
		e.opLock(fr.g, p, "Once.Do")
		done := e.onceDone[p]
		if !done {
			e.onceDone[p] = true
			e.call(fr, token.NoPos, a[1], nil)
		}
		e.opUnlock(fr.g, p)
		return nil
	}

	// ---- sync.Map (modelled as a mutex-protected insertion-ordered map)
	smap := func(p *Value) *Map {
		m := e.syncMaps[p]
		if m == nil {
			m = newMap(anyType)
			e.syncMaps[p] = m
		}
		return m
	}
	x["(*sync.Map).Load"] = func(fr *frame, a []Value) Value {
		p := a[0].(*Value)
		e.opLock(fr.g, p, "sync.Map")
		v, ok := smap(p).lookup(e, a[1])
		e.opUnlock(fr.g, p)
		if !ok {
			return Tuple{Iface{}, false}
		}
		return Tuple{v, true}
	}
	x["(*sync.Map).Store"] = func(fr *frame, a []Value) Value {
		p := a[0].(*Value)
		e.opLock(fr.g, p, "sync.Map")
		smap(p).insert(e, a[1], a[2])
		e.opUnlock(fr.g, p)
		return nil
	}
	x["(*sync.Map).LoadOrStore"] = func(fr *frame, a []Value) Value {
		p := a[0].(*Value)
		e.opLock(fr.g, p, "sync.Map")
		defer e.opUnlock(fr.g, p)
		if v, ok := smap(p).lookup(e, a[1]); ok {
			return Tuple{v, true}
		}
		smap(p).insert(e, a[1], a[2])
		return Tuple{a[2], false}
	}
	x["(*sync.Map).Swap"] = func(fr *frame, a []Value) Value {
		p := a[0].(*Value)
		e.opLock(fr.g, p, "sync.Map")
		defer e.opUnlock(fr.g, p)
		prev, ok := smap(p).lookup(e, a[1])
		smap(p).insert(e, a[1], a[2])
		if !ok {
			return Tuple{Iface{}, false}
		}
		return Tuple{prev, true}
	}
	x["(*sync.Map).LoadAndDelete"] = func(fr *frame, a []Value) Value {
		p := a[0].(*Value)
		e.opLock(fr.g, p, "sync.Map")
		defer e.opUnlock(fr.g, p)
		prev, ok := smap(p).lookup(e, a[1])
		if !ok {
			return Tuple{Iface{}, false}
		}
		smap(p).delete(e, a[1])
		return Tuple{prev, true}
	}
	x["(*sync.Map).CompareAndSwap"] = func(fr *frame, a []Value) Value {
		p := a[0].(*Value)
		e.opLock(fr.g, p, "sync.Map")
		defer e.opUnlock(fr.g, p)
		prev, ok := smap(p).lookup(e, a[1])
		if !ok || !e.branch(e.equals(anyType, prev, a[2])) {
			return false
		}
		smap(p).insert(e, a[1], a[3])
		return true
	}
	x["(*sync.Map).CompareAndDelete"] = func(fr *frame, a []Value) Value {
		p := a[0].(*Value)
		e.opLock(fr.g, p, "sync.Map")
		defer e.opUnlock(fr.g, p)
		prev, ok := smap(p).lookup(e, a[1])
		if !ok || !e.branch(e.equals(anyType, prev, a[2])) {
			return false
		}
		smap(p).delete(e, a[1])
		return true
	}
	x["(*sync.Map).Clear"] = func(fr *frame, a []Value) Value {
		p := a[0].(*Value)
		e.opLock(fr.g, p, "sync.Map")
		e.syncMaps[p] = newMap(anyType)
		e.opUnlock(fr.g, p)
		return nil
	}
	x["(*sync.Map).Delete"] = func(fr *frame, a []Value) Value {
		p := a[0].(*Value)
		e.opLock(fr.g, p, "sync.Map")
		smap(p).delete(e, a[1])
		e.opUnlock(fr.g, p)
		return nil
	}
	x["(*sync.Map).Range"] = func(fr *frame, a []Value) Value {
		p := a[0].(*Value)
		e.yield(fr.g, "sync.Map")
		for _, h := range smap(p).liveKeys() {
			en := h.(*mapEntry)
			if en.dead {
				continue
			}
			if !e.branch(e.call(fr, token.NoPos, a[1], []Value{en.k, en.v})) {
				break
			}
		}
		return nil
	}

	// ---- math
	x["math.NaN"] = func(fr *frame, a []Value) Value { return math.NaN() }
	x["math.Inf"] = func(fr *frame, a []Value) Value { return math.Inf(int(a[0].(int64))) }
	x["math.IsNaN"] = func(fr *frame, a []Value) Value { f := a[0].(float64); return f != f }
	x["math.IsInf"] = func(fr *frame, a []Value) Value { return math.IsInf(a[0].(float64), int(a[1].(int64))) }

	// ---- sync/atomic (function forms)
	cas := func(fr *frame, a []Value) Value {
		p := a[0].(*Value)
		var res bool
		e.atomicOp(fr.g, p, func() {
			if e.raceOn {
				// atomics do not race with each other; plain accesses are checked
			}
			if e.branch(e.scalarEq(*p, a[1])) {
				*p = a[2]
				res = true
			}
		})
		return res
	}
	load := func(fr *frame, a []Value) Value {
		p := a[0].(*Value)
		var v Value
		e.atomicOp(fr.g, p, func() { v = *p })
		return v
	}
	store := func(fr *frame, a []Value) Value {
		p := a[0].(*Value)
		e.atomicOp(fr.g, p, func() { *p = a[1] })
		return nil
	}
	swap := func(fr *frame, a []Value) Value {
		p := a[0].(*Value)
		var old Value
		e.atomicOp(fr.g, p, func() { old = *p; *p = a[1] })
		return old
	}
	for _, ty := range []string{"Int32", "Int64", "Uint32", "Uint64", "Uintptr", "Pointer"} {
		x["sync/atomic.CompareAndSwap"+ty] = cas
		x["sync/atomic.Load"+ty] = load
		x["sync/atomic.Store"+ty] = store
		x["sync/atomic.Swap"+ty] = swap
	}
	addFn := func(t types.Type) extFn {
		return func(fr *frame, a []Value) Value {
			p := a[0].(*Value)
			var v Value
			e.atomicOp(fr.g, p, func() {
				v = e.binop(token.ADD, t, *p, a[1])
				*p = v
			})
			return v
		}
	}
	x["sync/atomic.AddInt32"] = addFn(types.Typ[types.Int32])
	x["sync/atomic.AddInt64"] = addFn(types.Typ[types.Int64])
	x["sync/atomic.AddUint32"] = addFn(types.Typ[types.Uint32])
	x["sync/atomic.AddUint64"] = addFn(types.Typ[types.Uint64])
	// typed atomics: the value lives in field "v" of the struct
	typedField := func(p *Value) *Value {
		s := (*p).(Struct)
		// the value field is the last one for Int32/Int64/Uint32/Uint64/Bool (after noCopy / align64)
		return &s[len(s)-1]
	}
	for _, ty := range []struct {
		n string
		t types.Type
	}{{"Int32", types.Typ[types.Int32]}, {"Int64", types.Typ[types.Int64]}, {"Uint32", types.Typ[types.Uint32]}, {"Uint64", types.Typ[types.Uint64]}} {
		ty := ty
		x["(*sync/atomic."+ty.n+").Load"] = func(fr *frame, a []Value) Value {
			return load(fr, []Value{typedField(a[0].(*Value))})
		}
		x["(*sync/atomic."+ty.n+").Store"] = func(fr *frame, a []Value) Value {
			return store(fr, []Value{typedField(a[0].(*Value)), a[1]})
		}
		x["(*sync/atomic."+ty.n+").Add"] = func(fr *frame, a []Value) Value {
			return addFn(ty.t)(fr, []Value{typedField(a[0].(*Value)), a[1]})
		}
		x["(*sync/atomic."+ty.n+").CompareAndSwap"] = func(fr *frame, a []Value) Value {
			return cas(fr, []Value{typedField(a[0].(*Value)), a[1], a[2]})
		}
		x["(*sync/atomic."+ty.n+").Swap"] = func(fr *frame, a []Value) Value {
			return swap(fr, []Value{typedField(a[0].(*Value)), a[1]})
		}
	}
	x["(*sync/atomic.Bool).Load"] = func(fr *frame, a []Value) Value {
		v := load(fr, []Value{typedField(a[0].(*Value))})
		return e.notV(e.scalarEq(v, uint64(0)))
	}
	x["(*sync/atomic.Bool).Store"] = func(fr *frame, a []Value) Value {
		var u Value = uint64(0)
		if e.branch(a[1]) {
			u = uint64(1)
		}
		return store(fr, []Value{typedField(a[0].(*Value)), u})
	}
	x["(*sync/atomic.Bool).CompareAndSwap"] = func(fr *frame, a []Value) Value {
		toU := func(v Value) Value {
			if e.branch(v) {
				return uint64(1)
			}
			return uint64(0)
		}
		return cas(fr, []Value{typedField(a[0].(*Value)), toU(a[1]), toU(a[2])})
	}
	x["(*sync/atomic.Bool).Swap"] = func(fr *frame, a []Value) Value {
		var u Value = uint64(0)
		if e.branch(a[1]) {
			u = uint64(1)
		}
		old := swap(fr, []Value{typedField(a[0].(*Value)), u})
		return e.notV(e.scalarEq(old, uint64(0)))
	}
	// atomic.Value{ v any }: the interface value itself is the atomically accessed cell
	anyField := func(p *Value) *Value {
		s := (*p).(Struct)
		return &s[0]
	}
	x["(*sync/atomic.Value).Load"] = func(fr *frame, a []Value) Value {
		return load(fr, []Value{anyField(a[0].(*Value))})
	}
	x["(*sync/atomic.Value).Store"] = func(fr *frame, a []Value) Value {
		if a[1].(Iface).T == nil {
			e.rtPanic("sync/atomic: store of nil value into Value")
		}
		return store(fr, []Value{anyField(a[0].(*Value)), a[1]})
	}
	x["(*sync/atomic.Value).Swap"] = func(fr *frame, a []Value) Value {
		if a[1].(Iface).T == nil {
			e.rtPanic("sync/atomic: swap of nil value into Value")
		}
		return swap(fr, []Value{anyField(a[0].(*Value)), a[1]})
	}
	x["(*sync/atomic.Value).CompareAndSwap"] = func(fr *frame, a []Value) Value {
		p := anyField(a[0].(*Value))
		var res bool
		e.atomicOp(fr.g, p, func() {
			if e.branch(e.equals(nil, *p, a[1])) {
				*p = a[2]
				res = true
			}
		})
		return res
	}

	// ---- sort.Slice / SliceStable: insertion sort driven by the caller's less function
	// (stable; every comparison is a call of less, so symbolic keys fork as they would in any sort)
	sortSlice := func(fr *frame, a []Value) Value {
		itf := a[0].(Iface)
		xs, ok := itf.V.([]Value)
		if !ok {
			panic(engineErr("sort.Slice of %s", describeValue(itf.V)))
		}
		for i := 1; i < len(xs); i++ {
			for j := i; j > 0; j-- {
				if !e.branch(e.call(fr, token.NoPos, a[1], []Value{int64(j), int64(j - 1)})) {
					break
				}
				xs[j], xs[j-1] = xs[j-1], xs[j]
			}
		}
		return nil
	}
	// maps.Clone's runtime helper
	x["maps.clone"] = func(fr *frame, a []Value) Value {
		itf := a[0].(Iface)
		m, ok := itf.V.(*Map)
		if !ok || m == nil {
			return itf
		}
		c := newMap(m.keyT)
		for _, en := range m.entries {
			if !en.dead {
				c.insert(e, en.k, copyVal(en.v))
			}
		}
		return Iface{T: itf.T, V: c}
	}
	x["sort.Slice"] = sortSlice
	x["sort.SliceStable"] = sortSlice

	// ---- reflect
	x["reflect.TypeOf"] = func(fr *frame, a []Value) Value {
		itf := a[0].(Iface)
		if itf.T == nil {
			return Iface{}
		}
		return e.makeRType(itf.T)
	}
	x["internal/reflectlite.TypeOf"] = x["reflect.TypeOf"]
	x["reflect.ValueOf"] = func(fr *frame, a []Value) Value {
		itf := a[0].(Iface)
		return RValue{T: itf.T, V: itf.V}
	}
	x["reflect.New"] = func(fr *frame, a []Value) Value {
		t := a[0].(Iface).V.(RType).T
		cell := new(Value)
		*cell = zero(t)
		return RValue{T: types.NewPointer(t), V: cell}
	}
	x["reflect.Zero"] = func(fr *frame, a []Value) Value {
		t := a[0].(Iface).V.(RType).T
		return RValue{T: t, V: zero(t)}
	}
	x["(reflect.Value).Interface"] = func(fr *frame, a []Value) Value {
		rv := a[0].(RValue)
		if rv.T == nil {
			e.rtPanic("reflect: call of reflect.Value.Interface on zero Value")
		}
		if _, isI := rv.T.Underlying().(*types.Interface); isI {
			return rv.V
		}
		return Iface{T: rv.T, V: rv.V}
	}
	x["(reflect.Value).Elem"] = func(fr *frame, a []Value) Value {
		rv := a[0].(RValue)
		switch u := rv.T.Underlying().(type) {
		case *types.Pointer:
			p := rv.V.(*Value)
			if p == nil {
				return RValue{}
			}
			return RValue{T: u.Elem(), V: e.load(p, nil)}
		case *types.Interface:
			itf := rv.V.(Iface)
			return RValue{T: itf.T, V: itf.V}
		}
		e.rtPanic("reflect: call of reflect.Value.Elem on non-pointer Value")
		return nil
	}
	x["(reflect.Value).Pointer"] = func(fr *frame, a []Value) Value {
		rv := a[0].(RValue)
		return e.pointerID(rv.V)
	}
	x["(reflect.Value).IsNil"] = func(fr *frame, a []Value) Value {
		rv := a[0].(RValue)
		switch v := rv.V.(type) {
		case *Value:
			return v == nil
		case []Value:
			return v == nil
		case *Map:
			return v == nil
		case *Chan:
			return v == nil
		case Iface:
			return v.T == nil
		}
		return isNilFunc(rv.V)
	}
	x["(reflect.Value).Bool"] = func(fr *frame, a []Value) Value {
		rv := a[0].(RValue)
		if rv.T == nil || reflectKindIs(rv.T) != "bool" {
			e.rtPanic("reflect: call of reflect.Value.Bool on non-bool Value")
		}
		return rv.V
	}
	x["(reflect.Value).Int"] = func(fr *frame, a []Value) Value { return a[0].(RValue).V }
	x["(reflect.Value).String"] = func(fr *frame, a []Value) Value {
		rv := a[0].(RValue)
		if rv.T != nil && reflectKindIs(rv.T) == "string" {
			return rv.V
		}
		return "<" + e.reflectString(rv.T) + " Value>"
	}
	x["(reflect.Value).IsValid"] = func(fr *frame, a []Value) Value { return a[0].(RValue).T != nil }
	x["(reflect.Value).Kind"] = func(fr *frame, a []Value) Value { return reflectKind(a[0].(RValue).T) }
	x["(reflect.Value).Type"] = func(fr *frame, a []Value) Value { return e.makeRType(a[0].(RValue).T) }
	x["(reflect.Value).Call"] = func(fr *frame, a []Value) Value {
		rv := a[0].(RValue)
		var args []Value
		for _, in := range a[1].([]Value) {
			args = append(args, in.(RValue).V)
		}
		// interface-typed parameters need wrapping
		sig := rv.T.Underlying().(*types.Signature)
		for i := range args {
			if i < sig.Params().Len() {
				if _, isI := sig.Params().At(i).Type().Underlying().(*types.Interface); isI {
					if _, already := args[i].(Iface); !already {
						args[i] = Iface{T: a[1].([]Value)[i].(RValue).T, V: args[i]}
					}
				}
			}
		}
		res := e.call(fr, token.NoPos, rv.V, args)
		var out []Value
		switch r := res.(type) {
		case nil:
		case Tuple:
			for i, v := range r {
				out = append(out, RValue{T: sig.Results().At(i).Type(), V: v})
			}
		default:
			out = append(out, RValue{T: sig.Results().At(0).Type(), V: r})
		}
		return out
	}

	// ---- time
	x["time.Now"] = func(fr *frame, a []Value) Value {
		e.clock++
		return e.makeTime(int64(e.clock)*1000, nil)
	}
	x["time.Since"] = func(fr *frame, a []Value) Value { return int64(0) }
	x["time.Until"] = func(fr *frame, a []Value) Value { return int64(0) }
	x["(time.Time).Sub"] = func(fr *frame, a []Value) Value { return int64(0) }
	x["(time.Time).IsZero"] = func(fr *frame, a []Value) Value {
		t := a[0].(Struct)
		return e.andV(e.scalarEq(t[0], uint64(0)), e.scalarEq(t[1], int64(0)))
	}
	x["(time.Time).UTC"] = func(fr *frame, a []Value) Value {
		t := copyVal(a[0]).(Struct)
		t[2] = e.timeLoc("UTC")
		return t
	}
	x["(time.Time).Equal"] = func(fr *frame, a []Value) Value {
		t, u := a[0].(Struct), a[1].(Struct)
		return e.andV(e.scalarEq(t[0], u[0]), e.scalarEq(t[1], u[1]))
	}
	x["(time.Time).Format"] = func(fr *frame, a []Value) Value {
		t := copyVal(a[0]).(Struct)
		return &OpaqueStr{Tag: "time:" + a[1].(string), Payload: t}
	}
	x["(time.Time).UnixNano"] = func(fr *frame, a []Value) Value {
		t := a[0].(Struct)
		if w, ok := t[0].(uint64); ok && w == 0 {
			if x, ok := t[1].(int64); ok && x == 0 {
				// the zero Time is outside the int64 nanosecond range: Go returns this wrapped value
				return int64(-6795364578871345152)
			}
		}
		return t[1]
	}
	x["time.Unix"] = func(fr *frame, a []Value) Value {
		i64 := types.Typ[types.Int64]
		ns := e.binop(token.ADD, i64, e.binop(token.MUL, i64, a[0], int64(1000000000)), a[1])
		return e.makeTime(ns, e.timeLoc("Local"))
	}
	x["(time.Time).Unix"] = func(fr *frame, a []Value) Value {
		return e.binop(token.QUO, types.Typ[types.Int64], a[0].(Struct)[1], int64(1000000000))
	}
	x["(time.Time).Location"] = func(fr *frame, a []Value) Value {
		l := a[0].(Struct)[2].(*Value)
		if l == nil {
			return e.timeLoc("UTC")
		}
		return l
	}
	x["time.Parse"] = func(fr *frame, a []Value) Value {
		layout := a[0].(string)
		if o, ok := a[1].(*OpaqueStr); ok && o.Tag == "time:"+layout {
			return Tuple{copyVal(o.Payload), Iface{}}
		}
		if s, ok := a[1].(string); ok && s == "" {
			return Tuple{e.makeTime(0, nil), e.extError("time.ParseError")}
		}
		// arbitrary text: may or may not parse (symbolic outcome)
		if e.branch(e.newInput("bool", "time.Parse ok", sortBool)) {
			return Tuple{e.makeTime(e.newInputInt("parsed time", 1, 1<<40), nil), Iface{}}
		}
		return Tuple{e.makeTime(0, nil), e.extError("time.ParseError")}
	}
	x["(time.Duration).Milliseconds"] = func(fr *frame, a []Value) Value {
		if d, ok := a[0].(int64); ok {
			return d / 1e6
		}
		return int64(0)
	}
	x["(time.Duration).Seconds"] = func(fr *frame, a []Value) Value { return float64(0) }
	x["(time.Duration).String"] = func(fr *frame, a []Value) Value { return "0s" }

	// ---- fmt
	x["fmt.Sprintf"] = func(fr *frame, a []Value) Value {
		f, ok := a[0].(string)
		if !ok {
			panic(engineErr("fmt.Sprintf with symbolic format"))
		}
		return e.sprintf(f, a[1].([]Value))
	}
	x["fmt.Sprint"] = func(fr *frame, a []Value) Value {
		args := a[0].([]Value)
		return e.sprintf(strings.Repeat("%v", len(args)), args)
	}
	x["fmt.Println"] = func(fr *frame, a []Value) Value { return Tuple{int64(0), Iface{}} }
	x["fmt.Printf"] = func(fr *frame, a []Value) Value { return Tuple{int64(0), Iface{}} }
	x["fmt.Print"] = func(fr *frame, a []Value) Value { return Tuple{int64(0), Iface{}} }
	// logging has no effect on the properties: empty bodies
	for _, n := range []string{"Printf", "Println", "Print"} {
		x["log."+n] = func(fr *frame, a []Value) Value { return nil }
		x["(*log.Logger)."+n] = func(fr *frame, a []Value) Value { return nil }
	}
	x["log.SetOutput"] = func(fr *frame, a []Value) Value { return nil }
	x["log.SetFlags"] = func(fr *frame, a []Value) Value { return nil }
	x["log.Default"] = func(fr *frame, a []Value) Value { return (*Value)(nil) }
	x["fmt.Sprintln"] = func(fr *frame, a []Value) Value {
		args := a[0].([]Value)
		f := strings.TrimSuffix(strings.Repeat("%v ", len(args)), " ") + "\n"
		return e.sprintf(f, args)
	}
	// Fprintf and friends: format, then hand the bytes to the writer's Write method
	fprint := func(fr *frame, w Value, text Value) Value {
		itf := w.(Iface)
		if itf.T == nil {
			e.rtPanic("invalid memory address or nil pointer dereference")
		}
		m := e.lookupMethodByName(itf.T, "Write")
		if m == nil {
			panic(engineErr("fmt.Fprint*: writer %s has no Write method", itf.T))
		}
		return e.call(fr, token.NoPos, m, []Value{itf.V, e.stringToBytes(text)})
	}
	x["fmt.Fprintf"] = func(fr *frame, a []Value) Value {
		f, ok := a[1].(string)
		if !ok {
			panic(engineErr("fmt.Fprintf with symbolic format"))
		}
		return fprint(fr, a[0], e.sprintf(f, a[2].([]Value)))
	}
	x["fmt.Fprint"] = func(fr *frame, a []Value) Value {
		args := a[1].([]Value)
		return fprint(fr, a[0], e.sprintf(strings.Repeat("%v", len(args)), args))
	}
	x["fmt.Fprintln"] = func(fr *frame, a []Value) Value {
		args := a[1].([]Value)
		f := strings.TrimSuffix(strings.Repeat("%v ", len(args)), " ") + "\n"
		return fprint(fr, a[0], e.sprintf(f, args))
	}

	// ---- fmt.Sscan for integer targets (Go's base-prefix rules: a leading 0 means octal)
	x["fmt.Sscan"] = func(fr *frame, a []Value) Value {
		args := a[1].([]Value)
		if len(args) != 1 {
			panic(engineErr("fmt.Sscan with %d operands not modelled", len(args)))
		}
		tgt := args[0].(Iface)
		pt, ok := tgt.T.Underlying().(*types.Pointer)
		if !ok {
			panic(engineErr("fmt.Sscan target %s not modelled", tgt.T))
		}
		b := basicOf(pt.Elem())
		if b == nil || b.Info()&types.IsInteger == 0 || !isSigned(b) {
			panic(engineErr("fmt.Sscan target %s not modelled", tgt.T))
		}
		v, ok2 := e.scanInteger(a[0])
		if !ok2 {
			return Tuple{int64(0), e.extError("fmt.scanError")}
		}
		e.store(tgt.V.(*Value), v, nil)
		return Tuple{int64(1), Iface{}}
	}

	// ---- strconv
	x["strconv.FormatInt"] = func(fr *frame, a []Value) Value {
		if b, ok := a[1].(int64); !ok || b != 10 {
			panic(engineErr("strconv.FormatInt base != 10"))
		}
		return e.formatDecimal(a[0], 0, false)
	}
	x["strconv.Itoa"] = func(fr *frame, a []Value) Value { return e.formatDecimal(a[0], 0, false) }
	x["strconv.Quote"] = func(fr *frame, a []Value) Value {
		if s, ok := a[0].(string); ok {
			return strconv.Quote(s)
		}
		e.opaqueSeq++
		return &OpaqueStr{Tag: "quote", Payload: a[0]}
	}
	x["strconv.ParseInt"] = func(fr *frame, a []Value) Value {
		if b, ok := a[1].(int64); !ok || (b != 10 && b != 0) {
			panic(engineErr("strconv.ParseInt base != 10"))
		}
		if t, ok := a[0].(*Term); ok && t.Sort.K == SStr {
			panic(engineErr("strconv.ParseInt of an unconstrained SMT string"))
		}
		v, ok := e.parseDecimal(a[0])
		if !ok {
			return Tuple{int64(0), e.extError("strconv.NumError")}
		}
		return Tuple{v, Iface{}}
	}
	x["strconv.Atoi"] = func(fr *frame, a []Value) Value {
		v, ok := e.parseDecimal(a[0])
		if !ok {
			return Tuple{int64(0), e.extError("strconv.NumError")}
		}
		return Tuple{v, Iface{}}
	}

	// ---- strings (SMT-aware where cheap)
	x["strings.Contains"] = func(fr *frame, a []Value) Value {
		s, sub := normStr(a[0]), normStr(a[1])
		if cs, ok := s.(string); ok {
			if csub, ok := sub.(string); ok {
				return strings.Contains(cs, csub)
			}
		}
		return e.simplify(e.ts.StrContains(e.strTerm(s), e.strTerm(sub)), nil)
	}
	x["strings.HasPrefix"] = func(fr *frame, a []Value) Value {
		s, p := normStr(a[0]), normStr(a[1])
		if cs, ok := s.(string); ok {
			if cp, ok := p.(string); ok {
				return strings.HasPrefix(cs, cp)
			}
		}
		return e.simplify(e.ts.StrPrefixOf(e.strTerm(p), e.strTerm(s)), nil)
	}
	// both operands concrete: the host's implementation; otherwise SMT where there is a direct operator
	sym2 := func(name string, conc func(a, b string) Value, sym func(a, b *Term) Value) {
		x[name] = func(fr *frame, a []Value) Value {
			s, t := normStr(a[0]), normStr(a[1])
			cs, ok1 := s.(string)
			ct, ok2 := t.(string)
			if ok1 && ok2 {
				return conc(cs, ct)
			}
			if sym == nil {
				panic(engineErr("%s on symbolic strings", name))
			}
			return sym(e.strTerm(s), e.strTerm(t))
		}
	}
	substr := func(s, from, n *Term) *Term { return e.ts.mk(sortStr, "str.substr", s, from, n) }
	minus := func(a, b *Term) *Term { return e.ts.mk(sortInt, "-", a, b) }
	sym2("strings.HasSuffix", func(a, b string) Value { return strings.HasSuffix(a, b) },
		func(s, suf *Term) Value { return e.simplify(e.ts.mk(sortBool, "str.suffixof", suf, s), nil) })
	sym2("strings.Index", func(a, b string) Value { return int64(strings.Index(a, b)) },
		func(s, sub *Term) Value { return e.ts.mk(sortInt, "str.indexof", s, sub, e.ts.Int(0)) })
	sym2("strings.TrimPrefix", func(a, b string) Value { return strings.TrimPrefix(a, b) },
		func(s, p *Term) Value {
			if e.branch(e.simplify(e.ts.StrPrefixOf(p, s), nil)) {
				return e.simplify(substr(s, e.ts.StrLen(p), minus(e.ts.StrLen(s), e.ts.StrLen(p))), nil)
			}
			return s
		})
	sym2("strings.TrimSuffix", func(a, b string) Value { return strings.TrimSuffix(a, b) },
		func(s, p *Term) Value {
			if e.branch(e.simplify(e.ts.mk(sortBool, "str.suffixof", p, s), nil)) {
				return e.simplify(substr(s, e.ts.Int(0), minus(e.ts.StrLen(s), e.ts.StrLen(p))), nil)
			}
			return s
		})
	sym2("strings.EqualFold", func(a, b string) Value { return strings.EqualFold(a, b) }, nil)
	sym2("strings.Count", func(a, b string) Value { return int64(strings.Count(a, b)) }, nil)
	sym2("strings.LastIndex", func(a, b string) Value { return int64(strings.LastIndex(a, b)) }, nil)
	sym2("strings.ContainsAny", func(a, b string) Value { return strings.ContainsAny(a, b) }, nil)
	sym2("strings.Trim", func(a, b string) Value { return strings.Trim(a, b) }, nil)
	sym2("strings.TrimLeft", func(a, b string) Value { return strings.TrimLeft(a, b) }, nil)
	sym2("strings.TrimRight", func(a, b string) Value { return strings.TrimRight(a, b) }, nil)
	strSlice := func(xs []string) Value {
		out := make([]Value, len(xs))
		for i, s := range xs {
			out[i] = s
		}
		return out
	}
	sym2("strings.Split", func(a, b string) Value { return strSlice(strings.Split(a, b)) }, nil)
	x["strings.SplitN"] = func(fr *frame, a []Value) Value {
		s, ok1 := normStr(a[0]).(string)
		sep, ok2 := normStr(a[1]).(string)
		n, ok3 := a[2].(int64)
		if !ok1 || !ok2 || !ok3 {
			panic(engineErr("strings.SplitN on symbolic operands"))
		}
		return strSlice(strings.SplitN(s, sep, int(n)))
	}
	x["strings.Fields"] = func(fr *frame, a []Value) Value {
		s, ok := normStr(a[0]).(string)
		if !ok {
			panic(engineErr("strings.Fields on a symbolic string"))
		}
		return strSlice(strings.Fields(s))
	}
	x["strings.Join"] = func(fr *frame, a []Value) Value {
		var out Value = ""
		for i, el := range a[0].([]Value) {
			if i > 0 {
				out = e.strBinop(token.ADD, out, a[1])
			}
			out = e.strBinop(token.ADD, out, el)
		}
		return out
	}
	x["strings.Repeat"] = func(fr *frame, a []Value) Value {
		n, ok := a[1].(int64)
		if !ok || n < 0 || n > 64 {
			panic(engineErr("strings.Repeat with a symbolic or large count"))
		}
		var out Value = ""
		for i := int64(0); i < n; i++ {
			out = e.strBinop(token.ADD, out, a[0])
		}
		return out
	}
	x["strings.ReplaceAll"] = func(fr *frame, a []Value) Value {
		s, ok1 := normStr(a[0]).(string)
		o, ok2 := normStr(a[1]).(string)
		n, ok3 := normStr(a[2]).(string)
		if !ok1 || !ok2 || !ok3 {
			panic(engineErr("strings.ReplaceAll on symbolic strings"))
		}
		return strings.ReplaceAll(s, o, n)
	}
	conc1 := func(name string, f func(string) string) {
		x[name] = func(fr *frame, a []Value) Value {
			s, ok := normStr(a[0]).(string)
			if !ok {
				panic(engineErr("%s on a symbolic string", name))
			}
			return f(s)
		}
	}
	conc1("strings.ToLower", strings.ToLower)
	conc1("strings.ToUpper", strings.ToUpper)
	// strings.TrimSpace on a symbolic string: strip up to three leading and three trailing ASCII
	// white-space characters by case split (longer runs, and Unicode spaces, are outside the bound)
	x["strings.TrimSpace"] = func(fr *frame, a []Value) Value {
		v := normStr(a[0])
		if cs, ok := v.(string); ok {
			return strings.TrimSpace(cs)
		}
		cur := e.strTerm(v)
		isWS := func(c *Term) *Term {
			var alts []*Term
			for _, w := range []string{" ", "\t", "\n", "\r"} {
				alts = append(alts, e.ts.Eq(c, e.ts.StrC(w)))
			}
			return e.ts.Or(alts...)
		}
		one := e.ts.Int(1)
		for side := 0; side < 2; side++ {
			for k := 0; ; k++ {
				n := e.ts.StrLen(cur)
				var at *Term
				if side == 0 {
					at = e.ts.mk(sortStr, "str.at", cur, e.ts.Int(0))
				} else {
					at = e.ts.mk(sortStr, "str.at", cur, e.ts.mk(sortInt, "-", n, one))
				}
				has := e.simplify(e.ts.And(e.ts.mk(sortBool, "<=", one, n), isWS(at)), nil)
				if k == 3 {
					e.assume(e.notV(has)) // stated bound: at most three white-space characters per side
					break
				}
				if !e.branch(has) {
					break
				}
				if side == 0 {
					cur = e.ts.mk(sortStr, "str.substr", cur, one, e.ts.mk(sortInt, "-", n, one))
				} else {
					cur = e.ts.mk(sortStr, "str.substr", cur, e.ts.Int(0), e.ts.mk(sortInt, "-", n, one))
				}
			}
		}
		return e.simplify(cur, nil)
	}
	conc1("strings.Title", strings.Title)

	// ---- errors (New/Is/Unwrap are interpreted from source)
	x["errors.As"] = func(fr *frame, a []Value) Value { return e.errorsAs(fr, a[0].(Iface), a[1].(Iface)) }

	// ---- json
	x["encoding/json.Marshal"] = func(fr *frame, a []Value) Value { return e.jsonMarshal(fr, a[0].(Iface)) }
	x["encoding/json.Unmarshal"] = func(fr *frame, a []Value) Value {
		return e.jsonUnmarshal(fr, a[0].([]Value), a[1].(Iface))
	}
	// trimming white space / a trailing newline off a document leaves the document
	for _, name := range []string{"bytes.TrimSpace", "bytes.TrimSuffix", "bytes.TrimRight"} {
		name := name
		x[name] = func(fr *frame, a []Value) Value {
			if _, ok := asDoc(a[0].([]Value)); ok {
				return a[0]
			}
			panic(engineErr("%s on bytes that are not a JSON document is not modelled", name))
		}
	}
	x["bytes.Contains"] = func(fr *frame, a []Value) Value {
		hay, needle := a[0].([]Value), a[1].([]Value)
		nb := make([]byte, 0, len(needle))
		for _, c := range needle {
			u, ok := c.(uint64)
			if !ok {
				panic(engineErr("bytes.Contains with a symbolic pattern"))
			}
			nb = append(nb, byte(u))
		}
		if d, ok := asDoc(hay); ok {
			if m := reQuotedWord.FindSubmatch(nb); m != nil {
				return e.docHasStringToken(d, string(m[1]))
			}
			panic(engineErr("bytes.Contains(document, %q): only a quoted word is modelled", nb))
		}
		hb := make([]byte, 0, len(hay))
		for _, c := range hay {
			u, ok := c.(uint64)
			if !ok {
				panic(engineErr("bytes.Contains on symbolic bytes"))
			}
			hb = append(hb, byte(u))
		}
		return bytes.Contains(hb, nb)
	}
	x["encoding/json.Valid"] = func(fr *frame, a []Value) Value { return e.jsonValid(a[0].([]Value)) }

	// ---- os (files are not modelled)
	x["os.Remove"] = func(fr *frame, a []Value) Value { return Iface{} }
	x["os.RemoveAll"] = func(fr *frame, a []Value) Value { return Iface{} }

	// ---- runtime
	x["runtime.Goexit"] = func(fr *frame, a []Value) Value { panic(goexitSignal{}) }
	x["runtime.Gosched"] = func(fr *frame, a []Value) Value { e.sleepYield(fr.g, "Gosched"); return nil }
	x["runtime.GC"] = func(fr *frame, a []Value) Value { return nil }
	x["runtime.NumGoroutine"] = func(fr *frame, a []Value) Value { return int64(len(e.gors)) }
	x["runtime.GOMAXPROCS"] = func(fr *frame, a []Value) Value { return int64(16) }
	x["time.Sleep"] = func(fr *frame, a []Value) Value { e.sleepYield(fr.g, "Sleep"); return nil }

	e.installIntrinsics()
}

func (e *Engine) newInputInt(tag string, lo, hi int64) Value {
	return e.newInputIntK("int", tag, lo, hi)
}

func (e *Engine) newInputIntK(kind, tag string, lo, hi int64) Value {
	if e.concrete {
		return e.concreteInt(kind, tag, lo, hi)
	}
	t := e.newInput(kind, tag, sortInt)
	e.nondets[len(e.nondets)-1].Lo, e.nondets[len(e.nondets)-1].Hi = lo, hi
	blo, bhi := big.NewInt(lo), big.NewInt(hi)
	t.Lo, t.Hi = blo, bhi
	e.assumeTerm(e.ts.And(e.ts.mk(sortBool, "<=", e.ts.IntBig(blo), t), e.ts.mk(sortBool, "<=", t, e.ts.IntBig(bhi))))
	return t
}

func (e *Engine) installIntrinsics() {
	in := e.intrinsics
	in["vBool"] = func(fr *frame, a []Value) Value { return e.simplify(e.newInput("h:bool", "", sortBool), nil) }
	in["vInt"] = func(fr *frame, a []Value) Value {
		lo, lok := a[0].(int64)
		hi, hok := a[1].(int64)
		if lok && hok {
			if lo == hi {
				// still an input for replay purposes
				e.nondets = append(e.nondets, nondetRec{Name: fmt.Sprintf("in%d_c", len(e.nondets)), Kind: "h:int", Const: fmt.Sprint(lo)})
				return lo
			}
			if lo > hi {
				e.infeasiblePath("vInt empty range")
			}
			return e.newInputIntK("h:int", "", lo, hi)
		}
		// symbolic bounds
		lt, ht := e.toTerm(a[0], types.Typ[types.Int]), e.toTerm(a[1], types.Typ[types.Int])
		t := e.newInput("h:int", "", sortInt)
		t.Lo, t.Hi = lt.Lo, ht.Hi
		e.assume(e.simplify(e.ts.And(e.ts.mk(sortBool, "<=", lt, t), e.ts.mk(sortBool, "<=", t, ht)), nil))
		return t
	}
	in["vPick"] = func(fr *frame, a []Value) Value {
		n := a[0].(int64)
		if n <= 0 {
			e.infeasiblePath("vPick(0)")
		}
		if n == 1 {
			e.nondets = append(e.nondets, nondetRec{Name: fmt.Sprintf("in%d_c", len(e.nondets)), Kind: "h:int", Const: "0"})
			return int64(0)
		}
		t := e.newInputIntK("h:int", "pick", 0, n-1)
		return e.concretizeInt(t, "vPick")
	}
	in["vConcrete"] = func(fr *frame, a []Value) Value { return e.concretizeInt(a[0], "vConcrete") }
	in["vStr"] = func(fr *frame, a []Value) Value {
		t := e.newInput("h:str", a[0].(string), sortStr)
		if e.concrete {
			return t.Str
		}
		e.assumeTerm(e.ts.mk(sortBool, "<=", e.ts.StrLen(t), e.ts.Int(1<<20)))
		return t
	}
	in["vNameBytes"] = func(fr *frame, a []Value) Value {
		prefix := a[0].(string)
		n := int(a[1].(int64))
		bs, _ := toByteStr(prefix)
		out := &ByteStr{B: append([]Value(nil), bs.B...)}
		for i := 0; i < n; i++ {
			out.B = append(out.B, e.nameByte(prefix))
		}
		return out
	}
	in["vSymbolicTypeName"] = func(fr *frame, a []Value) Value {
		// the reflect name of this type becomes "<pkg>.T" + n solver-chosen bytes;
		// native replays rename the declared identifier accordingly
		itf := a[0].(Iface)
		n := int(a[1].(int64))
		named, ok := itf.T.(*types.Named)
		if !ok {
			panic(engineErr("vSymbolicTypeName needs a named type"))
		}
		base := named.Obj().Pkg().Name() + ".T"
		bs, _ := toByteStr(base)
		out := &ByteStr{B: append([]Value(nil), bs.B...)}
		for i := 0; i < n; i++ {
			out.B = append(out.B, e.nameByte("typename:"+named.Obj().Name()))
		}
		e.symNames[typeKey(itf.T)] = out
		return nil
	}
	in["vAssume"] = func(fr *frame, a []Value) Value { e.assume(a[0]); return nil }
	in["vAssert"] = func(fr *frame, a []Value) Value {
		e.assertCond(a[0], a[1].(string), "", nil)
		return nil
	}
	in["vAssertK"] = func(fr *frame, a []Value) Value {
		e.assertCond(a[0], a[1].(string), a[2].(string), a[3])
		return nil
	}
	in["vCover"] = func(fr *frame, a []Value) Value {
		if e.live {
			e.pathCover[a[0].(string)] = true
		}
		return nil
	}
	in["vObserve"] = func(fr *frame, a []Value) Value {
		var sb strings.Builder
		sb.WriteString(a[0].(string))
		for _, v := range a[1].([]Value) {
			sb.WriteByte(' ')
			if itf, ok := v.(Iface); ok {
				sb.WriteString(valString(normStr(itf.V)))
			} else {
				sb.WriteString(valString(v))
			}
		}
		e.observes = append(e.observes, sb.String())
		if e.concrete {
			var ob strings.Builder
			ob.WriteString("O:" + a[0].(string))
			for _, v := range a[1].([]Value) {
				ob.WriteByte(' ')
				if itf, ok := v.(Iface); ok {
					v = normStr(itf.V)
				}
				switch x := v.(type) {
				case int64, uint64, bool:
					fmt.Fprint(&ob, x)
				case string:
					ob.WriteString(x)
				default:
					ob.WriteString("?")
				}
			}
			e.ctrace = append(e.ctrace, ob.String())
		}
		return nil
	}
	in["vYield"] = func(fr *frame, a []Value) Value { e.yield(fr.g, "vYield"); return nil }
	in["vStep"] = func(fr *frame, a []Value) Value { e.stepCtr++; return e.stepCtr }
	in["vJoinAll"] = func(fr *frame, a []Value) Value { e.joinAll(fr.g); return nil }
	in["vSymbolic"] = func(fr *frame, a []Value) Value { return true }
	in["vParam"] = func(fr *frame, a []Value) Value {
		if v, ok := e.opts.Params[a[0].(string)]; ok {
			return v
		}
		return a[1]
	}
	in["vJSONUnmarshalUseNumber"] = func(fr *frame, a []Value) Value {
		e.jsonUseNumber = true
		defer func() { e.jsonUseNumber = false }()
		return e.jsonUnmarshal(fr, a[0].([]Value), a[1].(Iface))
	}
	in["vUnsupported"] = func(fr *frame, a []Value) Value {
		panic(engineErr("model: %s", valString(normStr(a[0]))))
	}
	in["vSQLKind"] = func(fr *frame, a []Value) Value {
		q, ok := normStr(a[0]).(string)
		if !ok {
			panic(engineErr("vsql: symbolic SQL text"))
		}
		k, cmp, lim, guard := sqlKind(q)
		return Tuple{int64(k), int64(cmp), lim, int64(guard)}
	}
	in["vRank"] = func(fr *frame, a []Value) Value {
		if e.concrete {
			sv, _ := normStr(a[0]).(string)
			r := int64(len(sv)) * 1000
			for i := 0; i < len(sv); i++ {
				r += int64(sv[i])
			}
			return r
		}
		return e.simplify(e.ts.mk(sortInt, "vrank", e.strTerm(a[0])), nil)
	}
	in["vGoID"] = func(fr *frame, a []Value) Value { return int64(fr.g.id) }
	in["vDoc"] = func(fr *frame, a []Value) Value {
		if e.concrete {
			return e.concreteDoc(a[0].(string))
		}
		return e.symbolicDoc(a[0].(string), "")
	}
	in["vDocWithout"] = func(fr *frame, a []Value) Value {
		if e.concrete {
			return e.concreteDoc(a[0].(string))
		}
		return e.symbolicDoc(a[0].(string), a[1].(string))
	}
	in["vTime"] = func(fr *frame, a []Value) Value {
		ns := e.newInputIntK("h:int", "time:"+a[0].(string), 1, 1<<50)
		var loc *Value
		if e.branch(e.newInput("h:bool", "zone:"+a[0].(string), sortBool)) {
			loc = e.timeLoc("Zone1")
		}
		return e.makeTime(ns, loc)
	}
	in["vFuncID"] = func(fr *frame, a []Value) Value { return e.pointerID(a[0].(Iface).V) }
}

// nameByte returns a fresh symbolic byte constrained to [a-z0-9].
func (e *Engine) nameByte(tag string) Value {
	b := e.newInput("h:byte", tag, sortBV(8))
	if e.concrete {
		return b.I.Uint64()
	}
	ts := e.ts
	lower := ts.And(ts.BVUle(ts.BV('a', 8), b), ts.BVUle(b, ts.BV('z', 8)))
	digit := ts.And(ts.BVUle(ts.BV('0', 8), b), ts.BVUle(b, ts.BV('9', 8)))
	e.assumeTerm(ts.Or(lower, digit))
	return b
}

// extError returns a distinct non-nil error value identified by name.
func (e *Engine) extError(name string) Value {
	if v, ok := e.extErrs[name]; ok {
		return v
	}
	msg := name
	if m, ok := stdErrorText[name]; ok {
		msg = m
	}
	v := e.newErrorString(msg)
	e.extErrs[name] = v
	return v
}

// stdErrorText: the messages of well-known sentinel errors of packages whose
// initialisers are not executed (the values are distinct objects either way).
var stdErrorText = map[string]string{
	"context.Canceled":         "context canceled",
	"io.EOF":                   "EOF",
	"io.ErrUnexpectedEOF":      "unexpected EOF",
	"io.ErrClosedPipe":         "io: read/write on closed pipe",
	"database/sql.ErrNoRows":   "sql: no rows in result set",
	"database/sql.ErrTxDone":   "sql: transaction has already been committed or rolled back",
	"database/sql.ErrConnDone": "sql: connection is already closed",
	"io/fs.ErrNotExist":        "file does not exist",
	"strconv.ErrSyntax":        "invalid syntax",
	"strconv.ErrRange":         "value out of range",
}

func (e *Engine) newErrorString(msg string) Value {
	ep := e.prog.ImportedPackage("errors")
	if ep == nil {
		panic(engineErr("errors package not loaded"))
	}
	t := ep.Type("errorString").Type()
	var cell Value = Struct{msg}
	return Iface{T: types.NewPointer(t), V: &cell}
}

func (e *Engine) initialGlobal(g *ssa.Global) Value {
	t := deref(g.Type())
	if g.Pkg != nil && !e.initSet[g.Pkg] {
		// global of a package whose initialiser is not executed
		if types.Identical(t, errorIfaceType) {
			return e.extError(g.Pkg.Pkg.Path() + "." + g.Name())
		}
		if g.Pkg.Pkg.Path() == "time" && (g.Name() == "UTC" || g.Name() == "Local") {
			return e.timeLoc(g.Name())
		}
	}
	return zero(t)
}

var errorIfaceType = types.Universe.Lookup("error").Type()

// ---- reflect helpers

func (e *Engine) makeRType(t types.Type) Value {
	return Iface{T: e.rtypePtr, V: RType{T: t}}
}

// reflectString renders a type the way reflect.Type.String does: packages by name, except inside the type
// argument list of an instantiated generic type, where reflect prints full import paths.
func (e *Engine) reflectString(t types.Type) string { return reflectStr(t, false) }

func reflectStr(t types.Type, full bool) string {
	qual := func(p *types.Package) string {
		if full {
			return p.Path()
		}
		return p.Name()
	}
	switch x := types.Unalias(t).(type) {
	case *types.Named:
		if x.TypeArgs().Len() == 0 {
			break
		}
		s := x.Obj().Name()
		if x.Obj().Pkg() != nil {
			s = qual(x.Obj().Pkg()) + "." + s
		}
		args := make([]string, x.TypeArgs().Len())
		for i := range args {
			args[i] = reflectStr(x.TypeArgs().At(i), true)
		}
		return s + "[" + strings.Join(args, ",") + "]"
	case *types.Pointer:
		return "*" + reflectStr(x.Elem(), full)
	case *types.Slice:
		return "[]" + reflectStr(x.Elem(), full)
	case *types.Array:
		return fmt.Sprintf("[%d]%s", x.Len(), reflectStr(x.Elem(), full))
	case *types.Map:
		return "map[" + reflectStr(x.Key(), full) + "]" + reflectStr(x.Elem(), full)
	}
	return types.TypeString(t, qual)
}

func reflectKind(t types.Type) Value {
	// values of reflect.Kind
	switch u := t.Underlying().(type) {
	case *types.Basic:
		switch u.Kind() {
		case types.Bool:
			return uint64(1)
		case types.Int:
			return uint64(2)
		case types.Int8:
			return uint64(3)
		case types.Int16:
			return uint64(4)
		case types.Int32:
			return uint64(5)
		case types.Int64:
			return uint64(6)
		case types.Uint:
			return uint64(7)
		case types.Uint8:
			return uint64(8)
		case types.Uint16:
			return uint64(9)
		case types.Uint32:
			return uint64(10)
		case types.Uint64:
			return uint64(11)
		case types.Uintptr:
			return uint64(12)
		case types.Float32:
			return uint64(13)
		case types.Float64:
			return uint64(14)
		case types.String:
			return uint64(24)
		case types.UnsafePointer:
			return uint64(26)
		}
	case *types.Array:
		return uint64(17)
	case *types.Chan:
		return uint64(18)
	case *types.Signature:
		return uint64(19)
	case *types.Interface:
		return uint64(20)
	case *types.Map:
		return uint64(21)
	case *types.Pointer:
		return uint64(22)
	case *types.Slice:
		return uint64(23)
	case *types.Struct:
		return uint64(25)
	}
	return uint64(0)
}

func (e *Engine) callRTypeMethod(m *rtypeMethod, args []Value) Value {
	t := m.recv.T
	switch m.name {
	case "String":
		if s, ok := e.symNames[typeKey(t)]; ok {
			return s
		}
		if p, ok := t.(*types.Pointer); ok {
			if s, ok := e.symNames[typeKey(p.Elem())]; ok {
				return e.strBinop(token.ADD, "*", s)
			}
		}
		return e.reflectString(t)
	case "Name":
		if n, ok := t.(*types.Named); ok {
			return n.Obj().Name()
		}
		if b, ok := t.(*types.Basic); ok {
			return b.Name()
		}
		return ""
	case "PkgPath":
		if n, ok := t.(*types.Named); ok && n.Obj().Pkg() != nil {
			return n.Obj().Pkg().Path()
		}
		return ""
	case "Kind":
		return reflectKind(t)
	case "Elem":
		switch u := t.Underlying().(type) {
		case *types.Pointer:
			return e.makeRType(u.Elem())
		case *types.Slice:
			return e.makeRType(u.Elem())
		case *types.Array:
			return e.makeRType(u.Elem())
		case *types.Map:
			return e.makeRType(u.Elem())
		case *types.Chan:
			return e.makeRType(u.Elem())
		}
		e.rtPanic("reflect: Elem of invalid type " + t.String())
	case "NumIn":
		return int64(t.Underlying().(*types.Signature).Params().Len())
	case "NumOut":
		return int64(t.Underlying().(*types.Signature).Results().Len())
	case "In":
		return e.makeRType(t.Underlying().(*types.Signature).Params().At(int(args[0].(int64))).Type())
	case "Out":
		return e.makeRType(t.Underlying().(*types.Signature).Results().At(int(args[0].(int64))).Type())
	case "Comparable":
		return types.Comparable(t)
	case "NumField":
		return int64(t.Underlying().(*types.Struct).NumFields())
	case "Field":
		st := t.Underlying().(*types.Struct)
		i := int(args[0].(int64))
		if i < 0 || i >= st.NumFields() {
			e.rtPanic("reflect: Field index out of bounds")
		}
		f := st.Field(i)
		pkgPath := ""
		if !f.Exported() && f.Pkg() != nil {
			pkgPath = f.Pkg().Path()
		}
		// reflect.StructField{Name, PkgPath, Type, Tag, Offset, Index, Anonymous}
		return Struct{f.Name(), pkgPath, e.makeRType(f.Type()), st.Tag(i), uint64(0), []Value{int64(i)}, f.Embedded()}
	case "Implements":
		u := args[0].(Iface).V.(RType).T
		return types.Implements(t, u.Underlying().(*types.Interface))
	case "AssignableTo":
		u := args[0].(Iface).V.(RType).T
		return types.AssignableTo(t, u)
	}
	panic(engineErr("reflect.Type.%s unsupported", m.name))
}

// pointerID gives func values (and pointers) a stable integer identity, as
// reflect.Value.Pointer does: closures of one function literal share it.
func (e *Engine) pointerID(v Value) Value {
	var fn *ssa.Function
	switch f := v.(type) {
	case *ssa.Function:
		fn = f
	case *Closure:
		if f != nil {
			fn = f.Fn
		}
	case *Value:
		if f == nil {
			return uint64(0)
		}
		id, ok := e.ptrIDs[f]
		if !ok {
			id = uint64(0x10000 + 16*len(e.ptrIDs))
			e.ptrIDs[f] = id
		}
		return id
	default:
		panic(engineErr("reflect.Value.Pointer of %T", v))
	}
	if fn == nil {
		return uint64(0)
	}
	id, ok := e.fnIDs[fn]
	if !ok {
		id = uint64(0x1000 + 16*len(e.fnIDs))
		e.fnIDs[fn] = id
	}
	return id
}

// ---- time helpers: time.Time is {wall uint64, ext int64, loc *Location}

func (e *Engine) makeTime(ns Value, loc *Value) Value {
	return Struct{uint64(0), ns, loc}
}

func (e *Engine) timeLoc(name string) *Value {
	if l, ok := e.timeLocs[name]; ok {
		return l
	}
	tp := e.prog.ImportedPackage("time")
	var cell Value
	if tp != nil {
		cell = zero(tp.Type("Location").Type())
		if s, ok := cell.(Struct); ok && len(s) > 0 {
			s[0] = name
		}
	} else {
		cell = Struct{name}
	}
	e.timeLocs[name] = &cell
	return &cell
}

// ---- errors.As

func (e *Engine) errorsAs(fr *frame, err Iface, target Iface) Value {
	pt, ok := target.T.Underlying().(*types.Pointer)
	if !ok {
		e.rtPanic("errors: target must be a non-nil pointer")
	}
	tt := pt.Elem()
	cell := target.V.(*Value)
	for depth := 0; err.T != nil && depth < 32; depth++ {
		if it, isI := tt.Underlying().(*types.Interface); isI {
			if types.Implements(err.T, it) {
				*cell = err
				return true
			}
		} else if types.Identical(err.T, tt) {
			*cell = copyVal(err.V)
			return true
		}
		// x.As(target) method
		if m := e.lookupMethodByName(err.T, "As"); m != nil {
			if e.branch(e.call(fr, token.NoPos, m, []Value{err.V, target})) {
				return true
			}
		}
		um := e.lookupMethodByName(err.T, "Unwrap")
		if um == nil {
			return false
		}
		r := e.call(fr, token.NoPos, um, []Value{err.V})
		next, ok := r.(Iface)
		if !ok {
			// Unwrap() []error (errors.Join, fmt.Errorf with several %w): depth-first, in order
			if list, isList := r.([]Value); isList {
				for _, el := range list {
					if sub, isI := el.(Iface); isI && sub.T != nil {
						if e.branch(e.errorsAs(fr, sub, target)) {
							return true
						}
					}
				}
			}
			return false
		}
		err = next
	}
	return false
}

func (e *Engine) lookupMethodByName(t types.Type, name string) *ssa.Function {
	ms := e.prog.MethodSets.MethodSet(t)
	for i := 0; i < ms.Len(); i++ {
		if ms.At(i).Obj().Name() == name {
			return e.prog.MethodValue(ms.At(i))
		}
	}
	return nil
}

// ---- recogniser for the SQL statements of stores/sqlite (used by the database/sql model)

var reQuotedWord = regexp.MustCompile(`^"([A-Za-z0-9_ .:-]*)"$`)

var (
	reSelEvents = regexp.MustCompile(`^select position, type, data, timestamp from events where position (>=|>|<=|<|!=|=) \? order by position( asc)?( limit \?)?$`)
	reUpsert    = regexp.MustCompile(`^insert into subscription_positions \(subscription_id, position, updated_at\) values \(\?, \?, current_timestamp\) on conflict ?\(subscription_id\) do update set position = excluded\.position, updated_at = current_timestamp( where excluded\.position (>=|>|<=|<|!=|=) subscription_positions\.position)?$`)
)

func cmpCode(op string) int {
	switch op {
	case ">":
		return 0
	case ">=":
		return 1
	case "<":
		return 2
	case "<=":
		return 3
	case "=":
		return 4
	case "!=":
		return 5
	}
	return -1
}

// sqlKind: 1 insert event, 2 select events, 3 upsert offset, 4 select offset,
// 5 pragma/DDL, 6 select schema version, 7 insert schema version, 0 unknown.
func sqlKind(q string) (kind, cmp int, hasLimit bool, guard int) {
	q = strings.ToLower(strings.Join(strings.Fields(q), " "))
	q = strings.TrimSuffix(q, ";")
	guard = -1
	switch {
	case strings.HasPrefix(q, "pragma "), strings.HasPrefix(q, "create table if not exists "), strings.HasPrefix(q, "create index if not exists "):
		return 5, 0, false, -1
	case q == "insert into schema_version (version) values (1)":
		return 7, 0, false, -1
	case q == "select coalesce(max(version), 0) from schema_version":
		return 6, 0, false, -1
	case q == "insert into events (type, data, timestamp) values (?, ?, ?)":
		return 1, 0, false, -1
	case q == "select position from subscription_positions where subscription_id = ?":
		return 4, 0, false, -1
	}
	if m := reSelEvents.FindStringSubmatch(q); m != nil {
		return 2, cmpCode(m[1]), m[3] != "", -1
	}
	if m := reUpsert.FindStringSubmatch(q); m != nil {
		g := -1
		if m[1] != "" {
			g = cmpCode(m[2])
		}
		return 3, 0, false, g
	}
	return 0, 0, false, -1
}

var conformanceDocs = []string{
	`{}`, `null`, `not json`, `[1,2]`, `"str"`, `7`,
	`{"headers":{"control":"reset"}}`,
	`{"headers":{"control":"snapshot-start","offset":"5"}}`,
	`{"headers":{"control":"reset","offset":7}}`,
	`{"type":"state.entA","key":"k","value":{"v":3},"headers":{"operation":"insert"}}`,
	`{"type":"state.entA","key":"k","headers":{"operation":"delete"}}`,
	`{"type":"state.entA","key":"k","value":"oops","headers":{"operation":"update"}}`,
	`{"type":"other","key":"k","value":{"v":1},"headers":{"operation":"insert"}}`,
}

func (e *Engine) concreteDoc(tag string) Value {
	d := conformanceDocs[e.rng.Intn(len(conformanceDocs))]
	e.nondets = append(e.nondets, nondetRec{Name: fmt.Sprintf("in%d_doc", len(e.nondets)), Kind: "h:doc", Tag: tag, Const: d})
	out := make([]Value, len(d))
	for i := 0; i < len(d); i++ {
		out[i] = uint64(d[i])
	}
	return out
}

func reflectKindIs(t types.Type) string {
	if b, ok := t.Underlying().(*types.Basic); ok {
		switch {
		case b.Info()&types.IsBoolean != 0:
			return "bool"
		case b.Info()&types.IsString != 0:
			return "string"
		}
	}
	return ""
}
