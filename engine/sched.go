package main

// Goroutines, the scheduler (lazy context-bounded interleaving), the
// happens-before race monitor and the sync primitives.

import (
	"fmt"
	"go/token"
	"go/types"
	"sync"

	"golang.org/x/tools/go/ssa"
)

type vclock []int32

func (v vclock) get(i int) int32 {
	if i < len(v) {
		return v[i]
	}
	return 0
}

func (v *vclock) join(o vclock) {
	for len(*v) < len(o) {
		*v = append(*v, 0)
	}
	for i, c := range o {
		if c > (*v)[i] {
			(*v)[i] = c
		}
	}
}

func (v *vclock) set(i int, c int32) {
	for len(*v) <= i {
		*v = append(*v, 0)
	}
	(*v)[i] = c
}

func (v vclock) clone() vclock { return append(vclock(nil), v...) }

type schedEv struct {
	G     int    `json:"g"` // goroutine making the transfer
	Point int    `json:"p"` // its instrumented sync point counter at that moment
	Kind  string `json:"k"` // preempt | block | exit
	Next  int    `json:"n"` // goroutine receiving the token
}

type Gor struct {
	points   int  // instrumented synchronisation points passed so far
	siteOK   bool // the current external call comes from instrumentable code
	sitePos  string
	id       int
	wake     chan struct{}
	done     bool
	started  bool
	blocked  func() bool
	desc     string
	internal bool // spawned by a model / the standard library
	vc       vclock
	fn       Value
	args     []Value
	pos      token.Pos
	endVC    vclock
}

func (g *Gor) enabled() bool {
	if g.done {
		return false
	}
	if g.blocked == nil {
		return true
	}
	return g.blocked()
}

// ---- scheduler

func (e *Engine) newGor(fn Value, args []Value, pos token.Pos) *Gor {
	g := &Gor{id: len(e.gors), wake: make(chan struct{}, 1), fn: fn, args: args, pos: pos}
	e.gors = append(e.gors, g)
	return g
}

func (e *Engine) spawn(parent *Gor, fn Value, args []Value, pos token.Pos) {
	g := e.newGor(fn, args, pos)
	// goroutines started by models or the standard library have no counterpart the native
	// replay could schedule (see replaySchedule)
	g.internal = !e.siteOK(pos)
	if len(e.gors) > e.maxGors {
		panic(engineErr("goroutine bound exceeded (%d)", e.maxGors))
	}
	// happens-before: go statement
	g.vc = parent.vc.clone()
	g.vc.set(g.id, 1)
	parent.vc.set(parent.id, parent.vc.get(parent.id)+1)
	e.multi = true
	e.hostWG.Add(1)
	go e.gorMain(g)
	e.yield(parent, "go")
}

func (e *Engine) gorMain(g *Gor) {
	defer e.hostWG.Done()
	<-g.wake
	g.started = true
	if e.aborting {
		return
	}
	defer func() {
		r := recover()
		switch r := r.(type) {
		case nil:
		case pathAbort:
			return
		case goexitSignal:
			// runtime.Goexit: the deferred calls have run, the goroutine ends like one that returned
			func() {
				defer func() {
					if r2 := recover(); r2 != nil {
						if _, ok := r2.(pathAbort); !ok {
							e.endPath(pathResult{kind: "engine", msg: fmt.Sprintf("host panic while a goroutine exits: %v", r2)})
						}
					}
				}()
				e.exitGor(g)
			}()
			return
		case targetPanic:
			e.endPath(pathResult{kind: "panic", msg: fmt.Sprintf("uncaught panic in goroutine %d: %s", g.id, e.panicString(r.v)), gor: g.id})
			return
		case *engineError:
			e.endPath(pathResult{kind: "engine", msg: r.msg})
			return
		default:
			e.endPath(pathResult{kind: "engine", msg: fmt.Sprintf("host panic: %v", r)})
			return
		}
	}()
	e.call(nil, g.pos, g.fn, g.args)
	e.exitGor(g)
}

// enabledOthers lists enabled goroutines other than g, in id order.
func (e *Engine) enabledOthers(g *Gor) []*Gor {
	var out []*Gor
	for _, o := range e.gors {
		if o != g && o.enabled() {
			out = append(out, o)
		}
	}
	return out
}

// switchTo hands the token to next and parks g (unless g is done).
func (e *Engine) switchTo(g, next *Gor) {
	e.cur = next
	e.stats.Switches++
	next.wake <- struct{}{}
	if g == nil || g.done {
		return
	}
	<-g.wake
	if e.aborting {
		panic(pathAbort{"abort"})
	}
	e.cur = g
}

// yield is a scheduling point at which g stays enabled.
func (e *Engine) yield(g *Gor, what string) {
	if g == nil {
		g = e.cur
	}
	if !g.siteOK {
		// synchronisation inside models / the standard library is treated as
		// atomic: no preemption there (it could not be replayed natively)
		return
	}
	g.points++
	if e.pointTrace {
		e.pointLog = append(e.pointLog, fmt.Sprintf("g%d p%d %s %s", g.id, g.points, what, g.sitePos))
	}
	if !e.multi {
		return
	}
	others := e.enabledOthers(g)
	if len(others) == 0 {
		return
	}
	if e.preempts >= e.opts.Preempt {
		return
	}
	choice := e.decideN("sched", len(others)+1)
	if choice == 0 {
		return
	}
	e.preempts++
	e.schedLog = append(e.schedLog, schedEv{G: g.id, Point: g.points, Kind: "preempt", Next: others[choice-1].id})
	e.switchTo(g, others[choice-1])
}

// sleepYield: time.Sleep / runtime.Gosched. A goroutine that sleeps lets the others run: when another
// goroutine is enabled the token always goes to one of them, and the switch does not count against the
// preemption bound (otherwise a polling loop - TryLock, Sleep, again - could spin for ever once the bound is
// used up, although the lock holder would make progress in every real execution).
func (e *Engine) sleepYield(g *Gor, what string) {
	if g == nil {
		g = e.cur
	}
	if !g.siteOK {
		return
	}
	g.points++
	if e.pointTrace {
		e.pointLog = append(e.pointLog, fmt.Sprintf("g%d p%d %s %s", g.id, g.points, what, g.sitePos))
	}
	if !e.multi {
		return
	}
	others := e.enabledOthers(g)
	if len(others) == 0 {
		return
	}
	choice := 0
	if len(others) > 1 {
		choice = e.decideN("sched", len(others))
	}
	e.schedLog = append(e.schedLog, schedEv{G: g.id, Point: g.points, Kind: "preempt", Next: others[choice].id})
	e.switchTo(g, others[choice])
}

// blockOn parks g until cond holds.
func (e *Engine) blockOn(g *Gor, cond func() bool, desc string) {
	if g == nil {
		g = e.cur
	}
	if cond() {
		return
	}
	g.blocked, g.desc = cond, desc
	for {
		others := e.enabledOthers(g)
		if len(others) == 0 {
			if cond() {
				break
			}
			e.deadlock(g)
		}
		choice := 0
		if len(others) > 1 {
			choice = e.decideN("sched", len(others))
		}
		e.schedLog = append(e.schedLog, schedEv{G: g.id, Point: g.points, Kind: "block", Next: others[choice].id})
		e.switchTo(g, others[choice])
		if cond() {
			break
		}
	}
	g.blocked, g.desc = nil, ""
}

func (e *Engine) exitGor(g *Gor) {
	g.done = true
	g.endVC = g.vc.clone()
	if g.id == 0 {
		return
	}
	others := e.enabledOthers(g)
	if len(others) == 0 {
		// everyone else is blocked or done
		for _, o := range e.gors {
			if !o.done {
				e.deadlock(nil)
			}
		}
		return
	}
	choice := 0
	if len(others) > 1 {
		choice = e.decideN("sched", len(others))
	}
	e.schedLog = append(e.schedLog, schedEv{G: g.id, Point: g.points, Kind: "exit", Next: others[choice].id})
	e.switchTo(g, others[choice])
}

func (e *Engine) deadlock(g *Gor) {
	msg := "deadlock: all goroutines blocked:"
	for _, o := range e.gors {
		if !o.done {
			msg += fmt.Sprintf(" g%d(%s)", o.id, o.desc)
		}
	}
	e.endPath(pathResult{kind: "deadlock", msg: msg})
	panic(pathAbort{"deadlock"})
}

// joinAll blocks g until every other goroutine is done (vJoinAll).
func (e *Engine) joinAll(g *Gor) {
	e.blockOn(g, func() bool {
		for _, o := range e.gors {
			if o != g && !o.done {
				return false
			}
		}
		return true
	}, "vJoinAll")
	for _, o := range e.gors {
		if o != g {
			g.vc.join(o.endVC)
		}
	}
}

// ---- happens-before helpers

func (e *Engine) acquire(g *Gor, obj *vclock) {
	if g == nil {
		g = e.cur
	}
	g.vc.join(*obj)
}

func (e *Engine) release(g *Gor, obj *vclock) {
	if g == nil {
		g = e.cur
	}
	obj.join(g.vc)
	g.vc.set(g.id, g.vc.get(g.id)+1)
}

// ---- race monitor (FastTrack-like, full read vectors)

type epoch struct {
	g  int
	c  int32
	at ssa.Instruction // position rendered only when a race is reported
}

type cellMeta struct {
	w     epoch
	hasW  bool
	reads []epoch
}

func (e *Engine) posOf(at ssa.Instruction) string {
	if at == nil {
		return "?"
	}
	p := at.Pos()
	if p == token.NoPos {
		// find nearest position in block
		if at.Block() != nil {
			for _, in := range at.Block().Instrs {
				if in.Pos() != token.NoPos {
					p = in.Pos()
					if in == at {
						break
					}
				}
			}
		}
	}
	fn := ""
	if at.Parent() != nil {
		fn = shortFn(at.Parent()) + " "
	}
	return fn + e.pos(p)
}

func (e *Engine) raceMeta(key any) *cellMeta {
	m := e.cells[key]
	if m == nil {
		m = &cellMeta{}
		e.cells[key] = m
	}
	return m
}

func (e *Engine) raceRead(p *Value, at ssa.Instruction)  { e.raceAccess(p, false, at) }
func (e *Engine) raceWrite(p *Value, at ssa.Instruction) { e.raceAccess(p, true, at) }
func (e *Engine) raceReadObj(o any, at ssa.Instruction) {
	if e.raceOn {
		e.raceAccess(o, false, at)
	}
}
func (e *Engine) raceWriteObj(o any, at ssa.Instruction) {
	if e.raceOn {
		e.raceAccess(o, true, at)
	}
}

func (e *Engine) raceAccess(key any, write bool, at ssa.Instruction) {
	if !e.multi {
		return
	}
	g := e.cur
	m := e.raceMeta(key)
	me := epoch{g: g.id, c: g.vc.get(g.id)}
	if m.hasW && m.w.g != g.id && m.w.c > g.vc.get(m.w.g) {
		e.reportRace(m.w, true, write, at)
	}
	if write {
		for _, r := range m.reads {
			if r.g != g.id && r.c > g.vc.get(r.g) {
				e.reportRace(r, false, true, at)
			}
		}
		me.at = at
		m.w, m.hasW = me, true
		m.reads = m.reads[:0]
		return
	}
	for i, r := range m.reads {
		if r.g == g.id {
			m.reads[i].c = me.c
			return
		}
	}
	me.at = at
	m.reads = append(m.reads, me)
}

func (e *Engine) reportRace(prev epoch, prevWrite, curWrite bool, at ssa.Instruction) {
	k := func(w bool) string {
		if w {
			return "write"
		}
		return "read"
	}
	msg := fmt.Sprintf("data race: %s by g%d at %s vs earlier %s by g%d at %s",
		k(curWrite), e.cur.id, e.posOf(at), k(prevWrite), prev.g, e.posOf(prev.at))
	e.endPath(pathResult{kind: "race", msg: msg})
	panic(pathAbort{"race"})
}

// ---- sync primitives (state keyed by the address of the Go value)

type mutexState struct {
	held bool
	vc   vclock
}

// rwState: writer-preferring reader/writer lock. A goroutine acquires the lock
// when it is scheduled and the lock is available ("acquire when scheduled"):
// this covers barging as well as hand-off orders. A waiting writer blocks new
// readers, as in Go. (Go additionally hands the lock to blocked readers at the
// writer's Unlock; orders that differ only in that hand-off are a superset here,
// and the native replay acquires through TryLock/TryRLock under the recorded schedule.)
type rwState struct {
	writer         bool
	readers        int
	writersWaiting int
	vc             vclock // released by writers
	rvc            vclock // released by readers
}

type wgState struct {
	n       int64
	vc      vclock
	waiters []*bool // goroutines blocked in Wait, released by the Done that zeroes the counter
}

type atomicState struct {
	vc vclock
}

func (e *Engine) mutexOf(p *Value) *mutexState {
	s := e.mutexes[p]
	if s == nil {
		s = &mutexState{}
		e.mutexes[p] = s
	}
	return s
}

func (e *Engine) rwOf(p *Value) *rwState {
	s := e.rws[p]
	if s == nil {
		s = &rwState{}
		e.rws[p] = s
	}
	return s
}

func (e *Engine) wgOf(p *Value) *wgState {
	s := e.wgs[p]
	if s == nil {
		s = &wgState{}
		e.wgs[p] = s
	}
	return s
}

func (e *Engine) atomicOf(p *Value) *atomicState {
	s := e.atomics[p]
	if s == nil {
		s = &atomicState{}
		e.atomics[p] = s
	}
	return s
}

func (e *Engine) mutexLock(g *Gor, p *Value) {
	if p == nil {
		e.rtPanic("nil mutex")
	}
	m := e.mutexOf(p)
	e.yield(g, "Mutex.Lock")
	if m.held {
		e.blockOn(g, func() bool { return !m.held }, "Mutex.Lock")
	}
	m.held = true
	e.acquire(g, &m.vc)
}

// opLock / opUnlock: the internal lock of a library object (sync.Once, sync.Map)
// whose method call is ONE scheduling point for the native replay: the caller
// yields once (name), then takes the lock without a further point.
func (e *Engine) opLock(g *Gor, p *Value, name string) {
	m := e.mutexOf(p)
	e.yield(g, name)
	if m.held {
		e.blockOn(g, func() bool { return !m.held }, name)
	}
	m.held = true
	e.acquire(g, &m.vc)
}

func (e *Engine) opUnlock(g *Gor, p *Value) {
	m := e.mutexOf(p)
	e.release(g, &m.vc)
	m.held = false
}

func (e *Engine) mutexTryLock(g *Gor, p *Value) bool {
	m := e.mutexOf(p)
	e.yield(g, "Mutex.TryLock")
	if m.held {
		return false
	}
	m.held = true
	e.acquire(g, &m.vc)
	return true
}

func (e *Engine) mutexUnlock(g *Gor, p *Value) {
	m := e.mutexOf(p)
	e.yield(g, "Mutex.Unlock")
	if !m.held {
		e.fatal("sync: unlock of unlocked mutex")
	}
	e.release(g, &m.vc)
	m.held = false
}

func (e *Engine) rwLock(g *Gor, p *Value) {
	m := e.rwOf(p)
	e.yield(g, "RWMutex.Lock")
	if m.writer || m.readers > 0 {
		m.writersWaiting++
		e.blockOn(g, func() bool { return !m.writer && m.readers == 0 }, "RWMutex.Lock")
		m.writersWaiting--
	}
	m.writer = true
	e.acquire(g, &m.vc)
	e.acquire(g, &m.rvc)
}

func (e *Engine) rwTryLock(g *Gor, p *Value) bool {
	m := e.rwOf(p)
	e.yield(g, "RWMutex.TryLock")
	if m.writer || m.readers > 0 {
		return false
	}
	m.writer = true
	e.acquire(g, &m.vc)
	e.acquire(g, &m.rvc)
	return true
}

func (e *Engine) rwTryRLock(g *Gor, p *Value) bool {
	m := e.rwOf(p)
	e.yield(g, "RWMutex.TryRLock")
	if m.writer || m.writersWaiting > 0 {
		return false
	}
	m.readers++
	e.acquire(g, &m.vc)
	return true
}

func (e *Engine) rwUnlock(g *Gor, p *Value) {
	m := e.rwOf(p)
	e.yield(g, "RWMutex.Unlock")
	if !m.writer {
		e.fatal("sync: Unlock of unlocked RWMutex")
	}
	e.release(g, &m.vc)
	m.writer = false
}

func (e *Engine) rwRLock(g *Gor, p *Value) {
	m := e.rwOf(p)
	e.yield(g, "RWMutex.RLock")
	if m.writer || m.writersWaiting > 0 {
		e.blockOn(g, func() bool { return !m.writer && m.writersWaiting == 0 }, "RWMutex.RLock")
	}
	m.readers++
	e.acquire(g, &m.vc)
}

func (e *Engine) rwRUnlock(g *Gor, p *Value) {
	m := e.rwOf(p)
	e.yield(g, "RWMutex.RUnlock")
	if m.readers <= 0 {
		e.fatal("sync: RUnlock of unlocked RWMutex")
	}
	e.release(g, &m.rvc)
	m.readers--
}

func (e *Engine) wgAdd(g *Gor, p *Value, delta Value) {
	w := e.wgOf(p)
	e.yield(g, "WaitGroup.Add")
	d := e.concretizeInt(delta, "WaitGroup delta")
	if d < 0 {
		e.release(g, &w.vc)
	}
	w.n += d
	if w.n < 0 {
		e.rtPanic("sync: negative WaitGroup counter")
	}
	if w.n == 0 {
		// the Done that brings the counter to zero releases everyone who is waiting NOW
		for _, r := range w.waiters {
			*r = true
		}
		w.waiters = nil
	}
}

func (e *Engine) wgWait(g *Gor, p *Value) {
	w := e.wgOf(p)
	e.yield(g, "WaitGroup.Wait")
	if w.n > 0 {
		released := new(bool)
		w.waiters = append(w.waiters, released)
		e.blockOn(g, func() bool { return *released }, "WaitGroup.Wait")
		if w.n != 0 {
			// what the runtime does when the counter has left zero again before a released
			// waiter got to run
			e.rtPanic("sync: WaitGroup is reused before previous Wait has returned")
		}
	}
	e.acquire(g, &w.vc)
}

// condState: sync.Cond. Wait is ONE scheduling point (as for the native replay, where the unlock, the
// wait and the re-lock happen inside the library): the caller yields, releases L, parks until a
// Signal/Broadcast issued after that picks it, and takes L again.
type condState struct {
	waiters []*bool
	vc      vclock
}

func (e *Engine) condOf(p *Value) *condState {
	c := e.conds[p]
	if c == nil {
		c = &condState{}
		e.conds[p] = c
	}
	return c
}

// condLocker returns release/free/take operations for the Locker stored in a Cond.
func (e *Engine) condLocker(fr *frame, g *Gor, c *Value) (release func(), free func() bool, take func()) {
	st, ok := (*c).(Struct)
	if !ok || len(st) < 2 {
		panic(engineErr("sync.Cond: unexpected layout"))
	}
	itf, ok := st[1].(Iface)
	if !ok || itf.T == nil {
		e.rtPanic("invalid memory address or nil pointer dereference (sync.Cond without Locker)")
	}
	switch itf.T.String() {
	case "*sync.Mutex":
		m := e.mutexOf(itf.V.(*Value))
		return func() {
				if !m.held {
					e.fatal("sync: unlock of unlocked mutex")
				}
				e.release(g, &m.vc)
				m.held = false
			}, func() bool { return !m.held }, func() {
				m.held = true
				e.acquire(g, &m.vc)
			}
	case "*sync.RWMutex":
		m := e.rwOf(itf.V.(*Value))
		return func() {
				if !m.writer {
					e.fatal("sync: Unlock of unlocked RWMutex")
				}
				e.release(g, &m.vc)
				m.writer = false
			}, func() bool { return !m.writer && m.readers == 0 }, func() {
				m.writer = true
				e.acquire(g, &m.vc)
				e.acquire(g, &m.rvc)
			}
	}
	panic(engineErr("sync.Cond over a %s is not modelled", itf.T))
}

func (e *Engine) condWait(fr *frame, p *Value) {
	g := fr.g
	c := e.condOf(p)
	release, free, take := e.condLocker(fr, g, p)
	e.yield(g, "Cond.Wait")
	released := new(bool)
	c.waiters = append(c.waiters, released)
	release()
	e.blockOn(g, func() bool { return *released && free() }, "Cond.Wait")
	e.acquire(g, &c.vc)
	take()
}

func (e *Engine) condSignal(fr *frame, p *Value, all bool) {
	g := fr.g
	c := e.condOf(p)
	e.yield(g, "Cond.Signal")
	e.release(g, &c.vc)
	n := len(c.waiters)
	if !all && n > 1 {
		n = 1
	}
	for _, r := range c.waiters[:n] {
		*r = true
	}
	c.waiters = c.waiters[n:]
}

// fatal models an unrecoverable runtime throw.
func (e *Engine) fatal(msg string) {
	e.endPath(pathResult{kind: "panic", msg: "fatal error: " + msg})
	panic(pathAbort{"fatal"})
}

// atomicOp runs f atomically on *p with acquire/release ordering.
func (e *Engine) atomicOp(g *Gor, p *Value, f func()) {
	if p == nil {
		e.rtPanic("invalid memory address or nil pointer dereference")
	}
	e.yield(g, "atomic")
	a := e.atomicOf(p)
	e.acquire(g, &a.vc)
	f()
	e.release(g, &a.vc)
}

// ---- select

func (e *Engine) selectOp(fr *frame, instr *ssa.Select) Value {
	g := fr.g
	type sc struct {
		ch   *Chan
		send Value
		dir  types.ChanDir
	}
	states := make([]sc, len(instr.States))
	for i, st := range instr.States {
		states[i] = sc{ch: fr.get(st.Chan).(*Chan), dir: st.Dir}
		if st.Send != nil {
			states[i].send = fr.get(st.Send)
		}
	}
	e.yield(g, "select")
	ready := func() []int {
		var r []int
		for i, s := range states {
			if s.ch == nil {
				continue
			}
			if s.dir == types.RecvOnly && s.ch.recvReady() {
				r = append(r, i)
			}
			if s.dir == types.SendOnly && s.ch.sendReady() {
				r = append(r, i)
			}
		}
		return r
	}
	r := ready()
	chosen := -1
	if len(r) == 0 {
		if instr.Blocking {
			for _, s := range states {
				if s.ch != nil && s.dir == types.RecvOnly {
					s.ch.recvW++
				}
			}
			// A goroutine parked in a select is woken by the first operation that makes one of
			// its cases ready and commits to that case then - not to whatever else has become
			// ready by the time it runs again. The set of ready cases is therefore frozen the
			// first time the scheduler sees one (it looks at every scheduling point of the others).
			for {
				var first []int
				e.blockOn(g, func() bool {
					if first == nil {
						if rr := ready(); len(rr) > 0 {
							first = rr
						}
					}
					return first != nil
				}, "select")
				now := ready()
				r = r[:0]
				for _, i := range first {
					for _, j := range now {
						if i == j {
							r = append(r, i)
						}
					}
				}
				if len(r) > 0 {
					break
				}
				if first == nil {
					r = now // woken without the predicate having run: fall back to what is ready now
					if len(r) > 0 {
						break
					}
				}
			}
			for _, s := range states {
				if s.ch != nil && s.dir == types.RecvOnly {
					s.ch.recvW--
				}
			}
		}
	}
	if len(r) > 0 {
		k := 0
		if len(r) > 1 {
			k = e.decideN("select", len(r))
		}
		chosen = r[k]
	}
	res := Tuple{int64(chosen), false}
	for i, st := range instr.States {
		if st.Dir != types.RecvOnly {
			continue
		}
		elemT := st.Chan.Type().Underlying().(*types.Chan).Elem()
		if i == chosen {
			c := states[i].ch
			e.acquire(g, &c.vc)
			var v Value
			ok := true
			if len(c.buf) > 0 {
				v = c.buf[0]
				c.buf = c.buf[1:]
			} else if len(c.sendq) > 0 {
				it := c.sendq[0]
				c.sendq = c.sendq[1:]
				it.taken = true
				v = it.v
			} else {
				v = zero(elemT)
				ok = false
			}
			res[1] = ok
			res = append(res, v)
		} else {
			res = append(res, zero(elemT))
		}
	}
	if chosen >= 0 && states[chosen].dir == types.SendOnly {
		c := states[chosen].ch
		if c.closed {
			e.rtPanic("send on closed channel")
		}
		e.release(g, &c.vc)
		if c.cap > 0 {
			c.buf = append(c.buf, copyVal(states[chosen].send))
		} else {
			panic(engineErr("select send on unbuffered channel unsupported"))
		}
	}
	return res
}

var _ sync.Mutex

// replaySchedule translates the recorded token transfers into what the native
// replay can follow. Natively only goroutines started by instrumented `go`
// statements (package under test, harness) are numbered and scheduled;
// goroutines started inside models or the standard library (a timer or
// AfterFunc callback, a context propagation helper) run on their own there. So
// they are left out of the numbering, and a hand-over that passes through them
// is collapsed into a hand-over to the next ordinary goroutine.
func (e *Engine) replaySchedule(log []schedEv) []schedEv {
	rid := map[int]int{}
	n := 0
	anyInternal := false
	for _, g := range e.gors {
		if g.internal {
			rid[g.id] = -1
			anyInternal = true
		} else {
			rid[g.id] = n
			n++
		}
	}
	if !anyInternal {
		return append([]schedEv(nil), log...)
	}
	var out []schedEv
	for i, ev := range log {
		if rid[ev.G] < 0 {
			continue
		}
		next := ev.Next
		// follow the token through internal goroutines
		for j := i + 1; rid[next] < 0; j++ {
			found := false
			for ; j < len(log); j++ {
				if log[j].G == next {
					next = log[j].Next
					found = true
					break
				}
			}
			if !found {
				break
			}
		}
		if rid[next] < 0 || rid[next] == rid[ev.G] && ev.Kind != "exit" {
			if rid[next] == rid[ev.G] {
				continue // the token came straight back: nothing for the replay to do
			}
			continue
		}
		out = append(out, schedEv{G: rid[ev.G], Point: ev.Point, Kind: ev.Kind, Next: rid[next]})
	}
	return out
}
