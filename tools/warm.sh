#!/bin/sh
# Warms the Go build cache for native replays (go test -overlay in /repo packages).
export GOPROXY=off
(cd /repo && go test -vet=off -count=1 -run '^$' . >/dev/null 2>&1) || true
(cd /repo/state && go test -vet=off -count=1 -run '^$' . >/dev/null 2>&1) || true
exit 0
