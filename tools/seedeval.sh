#!/bin/bash
# usage: tools/seedeval.sh <PROP> <mN> [extra props to run]
# Confirms a seeded change produced by a sub-agent in /tmp/seed_<PROP>/SEED and runs the checks against it.
set -u
P=$1; M=$2; OUT=${3:-$2}; shift 2; [ $# -gt 0 ] && shift
WT=/tmp/seed_$P
R=${SEED_REPO:-/repo}   # tree the checks run against (a scratch worktree keeps /repo untouched)
S=$WT/SEED
[ -d "$S" ] || S=$WT/_SEED
DIFF=$S/$M.diff
DEMO=$S/${M}_demo_test.go
export GOPROXY=off
[ -f "$DIFF" ] || { echo "no $DIFF"; exit 3; }
mv $WT/SEED $WT/_SEED 2>/dev/null; S=$WT/_SEED; DIFF=$S/$M.diff; DEMO=$S/${M}_demo_test.go
place=$(head -5 $DEMO | grep -o 'place in: *[^ ]*' | sed 's/place in: *//' | head -1); place=${place:-.}
git -C $WT checkout -q -- . ; git -C $WT clean -fdq -e _SEED
echo "== $P/$M -> $P-$OUT demo placed in '$place'"
# 1. demo passes on unchanged code
cp $DEMO $WT/$place/zz_seed_demo_test.go
( cd $WT/$place && go test -vet=off -count=1 -run "TestSeed${M^}\$|TestSeed${M^^}\$" . 2>&1 | tail -3 ) > /tmp/seedeval_clean.log; clean_rc=$(grep -c "^ok" /tmp/seedeval_clean.log)
rm -f $WT/$place/zz_seed_demo_test.go
# 2. apply; suite passes
git -C $WT apply $DIFF || { echo "diff does not apply"; exit 3; }
suite_ok=1
for d in . stores/sqlite stores/durablestream otel; do
  ( cd $WT/$d && go test -vet=off -count=1 ./... 2>&1 | grep -v "^ok\|no test files" | head -5 ) > /tmp/seedeval_suite.log
  if [ -s /tmp/seedeval_suite.log ]; then suite_ok=0; echo "suite output in $d:"; cat /tmp/seedeval_suite.log; fi
done
# 3. demo fails with change
cp $DEMO $WT/$place/zz_seed_demo_test.go
( cd $WT/$place && go test -vet=off -count=1 -run "TestSeed${M^}\$|TestSeed${M^^}\$" . 2>&1 | tail -3 ) > /tmp/seedeval_mut.log; mut_fail=$(grep -c "^FAIL\|^--- FAIL\|panic:" /tmp/seedeval_mut.log)
rm -f $WT/$place/zz_seed_demo_test.go
git -C $WT checkout -q -- .
echo "   demo on clean: $([ $clean_rc -ge 1 ] && echo PASS || echo NOT-PASS)   suite with change: $([ $suite_ok = 1 ] && echo PASS || echo FAIL)   demo with change: $([ $mut_fail -ge 1 ] && echo FAIL-as-required || echo DID-NOT-FAIL)"
if [ $clean_rc -ge 1 ] && [ $suite_ok = 1 ] && [ $mut_fail -ge 1 ]; then
  D=/verif/seeded/$P-$OUT; mkdir -p $D; cp $DIFF $D/patch.diff; cp $DEMO $D/demo_test.go
  # run the checks against /repo with the change applied, then undo
  git -C $R apply $DIFF || { echo "does not apply to $R"; exit 3; }
  res=""
  for Q in $P "$@"; do
    out=$(cd /verif && env VERIF_SCRATCH_EVIDENCE=1 VERIF_REPO=$R timeout 900 ./check $Q quick 2>&1); rc=$?
    lab=$(echo "$out" | grep -o "entry=[A-Za-z0-9]* label=[a-zA-Z0-9_-]*" | head -2 | tr '\n' ';')
    echo "   check $Q quick: rc=$rc $lab"
    res="$res $Q:quick:rc=$rc:$lab"
    if [ $rc != 1 ] && [ "${THOROUGH:-0}" = 1 ]; then
      out=$(cd /verif && env VERIF_SCRATCH_EVIDENCE=1 VERIF_REPO=$R timeout 3000 ./check $Q thorough 2>&1); rc2=$?
      lab=$(echo "$out" | grep -o "entry=[A-Za-z0-9]* label=[a-zA-Z0-9_-]*" | head -2 | tr '\n' ';')
      echo "   check $Q thorough: rc=$rc2 $lab"; [ $rc2 = 2 ] && echo "$out" | grep "INCONCLUSIVE\|UNCONFIRMED" | cut -c1-300 | head -3
      res="$res $Q:thorough:rc=$rc2:$lab"
    fi
  done
  git -C $R checkout -- .
  echo "$res" > $D/result.txt
fi
mv $WT/_SEED $WT/SEED 2>/dev/null
