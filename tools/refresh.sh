#!/bin/bash
# Re-runs every registered quick check on the clean /repo and validates MANIFEST + evidence.
cd /verif
git -C /repo diff --quiet || { echo "/repo is not clean"; exit 3; }
python3 tools/manifest.py
rc=0
for p in $(python3 -c "import json; print(' '.join(c['property_id'] for c in json.load(open('MANIFEST.json'))['checks']))"); do
  s=$(date +%s); out=$(./check $p quick 2>&1); r=$?; e=$(( $(date +%s) - s ))
  echo "$p rc=$r ${e}s $(echo "$out" | grep -c KNOWN-FINDING) known"
  [ $r != 0 ] && { rc=1; echo "$out" | tail -5; }
done
python3-vt - <<'PY'
import json,jsonschema,glob
jsonschema.validate(json.load(open('MANIFEST.json')), json.load(open('/root/.vp/MANIFEST.schema.json')))
sch=json.load(open('/root/.vp/EVIDENCE.schema.json'))
for f in sorted(glob.glob('evidence/*.json')):
    jsonschema.validate(json.load(open(f)), sch)
print('manifest and evidence valid')
PY
exit $rc
