#!/usr/bin/env python3
"""Writes /verif/seeded/<id>/meta.json from the evaluation results."""
import json, os, glob
HERE = os.path.dirname(os.path.dirname(os.path.abspath(__file__)))
DESC = {
 "C01-m1": ("PublishContext iterates the live handler slice instead of a copy", "an Unsubscribe issued from inside a handler while the event is being delivered (re-entrant)"),
 "C01-m2": ("Clear[T] recreates the whole shard map when it holds at most one type", "two event types routed to the same shard (1 in 32) and a Clear of a type that has no handlers"),
 "C04-m1": ("cancelled-context check before the Once claim hoisted out of the handler loop", "a context cancelled by an earlier handler during the same publish, then a Once handler"),
 "C04-m2": ("fired Once handlers removed by function code pointer instead of identity", "the same function subscribed twice, the first registration not being the one that fired"),
 "C05-m1": ("Sequential handler lock released explicitly instead of by defer", "a Sequential handler that panics, then a second publish"),
 "C05-m2": ("panic handler gated on an error built only for string/error panic values", "a panic value that is neither string nor error (e.g. an int)"),
 "C08-m1": ("fast path for an already cancelled context skips the context-aware after hook", "pre-cancelled context together with WithAfterPublishContext"),
 "C08-m2": ("cancellation tracked in a local flag refreshed from the handler's return value", "a synchronous handler that cancels the context and then panics"),
 "C09-m1": ("nil check of the user hook hoisted in WithBeforePublishContext", "WithBeforePublishContext(nil) given after WithStore"),
 "C09-m2": ("bus lock no longer held across store.Append", "concurrent publishers on a store without locking of its own, particular interleaving"),
 "C10-m1": ("MemoryStore.Read resume fast path parsing the padded offset with fmt.Sscan (octal)", "a read resumed from an offset whose decimal digits contain 8 or 9 (position >= 8)"),
 "C10-m2": ("SQLite SaveOffset upsert made forward-only", "saving a lower offset after a higher one"),
 "C11-m1": ("paged Replay stops after a short page", "a non-streaming store and a batch size larger than the remaining events / cancellation at a batch boundary"),
 "C11-m2": ("MemoryStore.ReadStream checks the context only every 64 events", "cancellation in the middle of a streamed replay"),
 "C12-m1": ("replay phase saves the offset only when it is lexicographically greater", "SQLite store (unpadded offsets) with more than 9 events"),
 "C12-m2": ("replay phase saves the offset once after Replay instead of per event", "a Read failure on a later page during the replay phase"),
 "C02-m1": ("per-publish snapshot replaced by a capacity-capped re-slice of the live array", "an Unsubscribe concurrent with a publish at a particular interleaving"),
 "C02-m2": ("once-removal fast path deletes the whole map entry", "Clear followed by Subscribe during a publish that fires a Once handler"),
 "C03-m1": ("filter predicates evaluated while the shard read lock is held", "a filter that calls back into the bus (subscribe/unsubscribe/clear)"),
 "C03-m2": ("publish iterates the live handler slice", "publish racing with Unsubscribe / once removal"),
 "C06-m1": ("one bus.wg entry per publish with a collector goroutine", "two async handlers of one type, the first finishing before the second is dispatched"),
 "C06-m2": ("store Close moved below the select in Shutdown", "context expiring while async work is in flight, store implementing Close"),
 "C07-m1": ("Sequential lock only taken for async dispatch", "two goroutines publishing concurrently to a synchronous Sequential handler"),
 "C07-m2": ("Sequential lock released explicitly instead of by defer", "a Sequential handler that panics, then another event"),
 "C13-m1": ("per-type cache of marshal failures", "an event unencodable by value (NaN) followed by encodable events of the same type"),
 "C13-m2": ("persist context refactor loses the timeout context when observability is set", "WithPersistenceTimeout together with WithObservability"),
 "C15-m1": ("typeNameOf checks new(T) for TypeNamer for value types", "a value event whose EventTypeName is on the pointer receiver"),
 "C15-m2": ("nil-receiver guard in persistEvent names typed nil pointers by reflect name", "publishing a nil *T whose type has a pointer-receiver name"),
 "C16-m1": ("loop guard in apply weakened to newType == currentType", "two raw upcasters returning types other than their declared targets"),
 "C16-m2": ("cycle check under RLock, write lock taken only for the append", "two racing registrations that together close a cycle"),
 "C17-m1": ("apply returns partly upcast data on failure and ReplayWithUpcast tests the type instead of the error", "a failure at step 2 or later of a chain"),
 "C17-m2": ("apply falls back to later upcasters of the same source when the first fails", "a source type with two upcasters, the first failing"),
 "C18-m1": ("CompositeKey returns the key unchanged when it already starts with type/", "a key that starts with the entity type and the separator"),
 "C18-m2": ("offset bookkeeping helper also called when applyChange fails", "strict mode with an unregistered entity type, resumed session"),
 "C19-m1": ("update decodes over the entity already in the store", "an update omitting an omitempty field that the stored entity has set"),
 "C19-m2": ("offset bookkeeping moved before applyChange", "a well-formed change that cannot be applied (strict unknown type / undecodable value)"),
 "C20-m1": ("early return in PublishContext without subscribers/after hooks skips OnPublishComplete", "a publish with zero subscribers"),
 "C20-m2": ("OTel persist counter incremented only on successful completion", "a failing append with the OpenTelemetry observability"),
}
for d in sorted(glob.glob(os.path.join(HERE, "seeded", "*"))):
    sid = os.path.basename(d)
    res = open(os.path.join(d, "result.txt")).read().strip() if os.path.exists(os.path.join(d, "result.txt")) else ""
    what, needs = DESC.get(sid, ("", ""))
    caught = [r for r in res.split() if ":rc=1" in r]
    meta = {"id": sid, "breaks_property": sid.split("-")[0], "change": what, "needs_to_manifest": needs,
            "confirmed_by_me": "tools/seedeval.sh: demonstration passes on the unchanged worktree; whole existing suite (root, state, stores/sqlite, stores/durablestream, otel) passes with patch.diff applied; demonstration fails with it",
            "checks_run": res, "caught": bool(caught),
            "how_applied": "git -C /repo apply seeded/%s/patch.diff; ./check <id> quick; git -C /repo checkout -- ." % sid}
    json.dump(meta, open(os.path.join(d, "meta.json"), "w"), indent=1)
    print(sid, "caught" if caught else "MISSED", res[:100])
