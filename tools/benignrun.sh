#!/bin/bash
# usage: tools/benignrun.sh <dir with r*.diff> [properties...]
# Applies behaviour-preserving refactorings (as many of the diffs as apply together) to a scratch
# worktree and runs the quick checks: every one of them must still exit 0 (false-alarm test).
cd /verif
D=$(cd "$1" && pwd); shift
R=${SEED_REPO:-/tmp/wt2}
props="$@"; [ -z "$props" ] && props=$(python3 -c "import json; print(' '.join(c['property_id'] for c in json.load(open('MANIFEST.json'))['checks']))")
git -C $R checkout -q -- .
applied=""
for f in $D/r*.diff; do
  if git -C $R apply $f 2>/dev/null; then applied="$applied $(basename $f)"; else echo "   (does not apply on top of the others: $(basename $f))"; fi
done
echo "== $D applied:$applied"
for P in $props; do
  out=$(env VERIF_SCRATCH_EVIDENCE=1 VERIF_REPO=$R timeout 1500 ./check $P quick 2>&1); rc=$?
  if [ $rc != 0 ]; then
    echo "   $P rc=$rc"; echo "$out" | grep "VIOLATION\|INCONCL\|UNCONF\|entry=" | cut -c1-400 | head -6
  else
    echo "   $P ok"
  fi
done
git -C $R checkout -q -- .
