#!/bin/bash
# usage: tools/seedone.sh <scratch-worktree> <seed-id> [extra env...]  -- applies one kept seeded change to a scratch
# worktree of /repo, runs the property's quick check (and extra_checks) against it, restores the worktree and
# records the outcome in seeded/<id>/result.txt
cd /verif
R=$1; sid=$2; P=${sid%%-*}
git -C $R checkout -q -- . ; git -C $R checkout -q --detach $(git -C /repo rev-parse HEAD)
[ -f seeded/$sid/base_commit ] && git -C $R checkout -q $(cat seeded/$sid/base_commit)
git -C $R apply /verif/seeded/$sid/patch.diff || { echo "$sid: does not apply"; exit 3; }
res=""
for Q in $P $(cat seeded/$sid/extra_checks 2>/dev/null); do
  out=$(env VERIF_REPO=$R timeout 900 ./check $Q quick 2>&1); rc=$?
  lab=$(echo "$out" | grep -o "entry=[A-Za-z0-9]* label=[a-zA-Z0-9_-]*" | head -2 | tr '\n' ';')
  res="$res $Q:quick:rc=$rc:$lab"
  echo "$sid $Q rc=$rc $lab"
  [ $rc = 2 ] && echo "$out" | grep "INCONCLUSIVE\|UNCONFIRMED\|VACUOUS" | cut -c1-300 | head -3
done
git -C $R checkout -q -- .
git -C $R checkout -q --detach $(git -C /repo rev-parse HEAD)
echo "$res" > seeded/$sid/result.txt
