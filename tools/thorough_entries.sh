#!/bin/bash
# usage: tools/thorough_entries.sh  -- thorough tier of the entries added or extended last, one property at a time
# under a time limit (validation of the registered thorough bounds on the clean tree)
cd "$(dirname "$0")/.."
[ -x bin/gosx ] || (cd engine && GOFLAGS=-mod=mod GOPROXY=off go build -o ../bin/gosx .)
run() { p=$1; ents=$2
  s=$(date +%s); out=$(VERIF_ENTRY=$ents VERIF_SCRATCH_EVIDENCE=1 timeout ${LIMIT:-1200} ./check $p thorough 2>&1); r=$?; e=$(( $(date +%s) - s ))
  echo "$p [$ents] thorough rc=$r ${e}s"; echo "$out" | grep "^OK\|CROSS" | cut -c1-120
  [ $r != 0 ] && echo "$out" | grep -v "^    in\|^  in\|KNOWN-FINDING\|no entries" | tail -4
}
run C06 harnessC06TwoWaiters,harnessC06ShutdownAfterShutdown,harnessC06PanicReportInFlight
run C20 harnessC20ConcurrentPersist,harnessC20AsyncCancelled
run C13 harnessC13Failures
run C18 harnessC18FoldFocused
run C12 harnessC12ResumedThenFault
run C12 harnessC12SqliteHistory
run C01 harnessC01RegistryStep,harnessC01Reentrant
run C07 harnessC07SubscribeWhilePublishing,harnessC07AsyncOrder,harnessC07RegistryChanges
run C10 harnessC10MemConcurrentAppend,harnessC10SqliteReadChain
run C17 harnessC17ChainHandlerModes
run C09 harnessC09SlowStore,harnessC09DurablePublishes
run C11 harnessC11DurableReplay,harnessC11DurableReplayLong
