#!/usr/bin/env python3
"""Regenerates MANIFEST.json from the table below (keeps it schema-valid)."""
import json, os
HERE = os.path.dirname(os.path.dirname(os.path.abspath(__file__)))

TECH = "bounded symbolic execution of the real code (go/ssa -> SMT, z3; z3 5.1 cross-check in the thorough tier), solver-decided assertions, native replay of counterexamples, engine-vs-native conformance runs"
NOTE_COMMON = ("Trusted: go/ssa construction, the gosx interpreter and its std-library stubs/models (listed in each evidence file), z3. "
               "Holds only within the per-entry bounds recorded in the evidence; map iteration order fixed to insertion order.")

CLAIMS = {
 "C10": dict(text="Memory store and SQLite store (real stores/sqlite code over a database/sql model that parses the comparison, LIMIT and upsert guard out of the SQL text): offset order as one inductive step from an arbitrary base position (digit-witness encoding of the decimal rendering), read chains / streaming (batched and not; two interleaved streams) / save-load / isolation for every log length, limit and resume point within the bound. Bounded model checking, not a proof.",
             ref="§3 C10", note=NOTE_COMMON + " The durable-streams store runs as the real client library over a Go-source transport model of the protocol (chunked / strict-offset / failing-read knobs symbolic). SQLite itself (pager, SQL engine, driver value conversion incl. timestamps with zones), a real durable-streams server and byte-level JSON are outside the claim; the SQLite lexicographic-order defect and the durable-streams limit/skip defect are recorded known findings."),
 "C11": dict(text="bus.Replay over the paged path, the memory streaming path and the SQLite streaming paths (single cursor and batched, over the database/sql model): every log length, start offset, batch size and single-fault position (callback error, cancellation, store/driver failure at a chosen query / row fetch / scan / close) within the bound is a symbolic variable; the oracle (gap-free prefix, nil iff complete, cause wrapped, no append, no handler) is discharged by the solver on every path; a log shared by two buses replayed from the replaying bus's own last offset, and ReplayWithUpcast with a failing upcaster; SQLite counterexamples are replayed against the real driver behind a fault-injecting database/sql/driver wrapper.",
             ref="§3 C11", note=NOTE_COMMON + " The durable-streams store is covered through the transport model under the real client library (its limit/skip defect is a recorded known finding); batched-stream cancellation is a recorded known finding."),
 "C09": dict(text="Persistent bus configuration: every subset of the other bus options with WithStore at every position, K publishes of value / pointer / custom-named events with symbolic fields; live, cancelled and expired publish contexts on the bundled MemoryStore; the durable-streams store with per-publish contexts cancelled afterwards; record visible to the handler of the same publish, one record per publish, type = EventType, decode = published value, offsets increasing - all discharged by the solver per path.",
             ref="§3 C09", note=NOTE_COMMON + " encoding/json is a tree model built from the real struct tags (byte-level encoding trusted)."),
 "C13": dict(text="Every pattern of ok / unencodable / rejected / deadline-expired outcomes over K publishes, with and without error handler and timeout: delivery unaffected, exactly one append attempt, one report per failure wrapping the cause (also when the store's error looks like a cancellation), log = successes only, fresh replay subscriber sees exactly the successes; the durable-streams store with a server that answers one append with 503.",
             ref="§3 C13", note=NOTE_COMMON + " context is a Go-source model; deadline expiry is a symbolic choice made by the harness store."),
 "C15": dict(text="One harness per event-type shape (value, pointer, custom name on value/pointer receiver, published as value/pointer) with an arbitrary SMT-string custom name: stored type = EventType, typed replay subscription and typed upcast source/target match it, also after an upcasting replay; value-dependent names.",
             ref="§3 C15", note=NOTE_COMMON),
 "C16": dict(text="RegisterUpcastFunc as one inductive step from an arbitrary acyclic registry (acyclicity assumed through an uninterpreted rank function over SMT-string names): rejected iff empty/equal/nil/target-reaches-source; exhaustive call sequences over 3 names; apply() termination with raw upcasters returning arbitrary names, checked as an instruction budget; upcasting a chain while another goroutine registers an edge or clears the registry.",
             ref="§3 C16", note=NOTE_COMMON + " Registry size bounded by E edges; two concurrent registrations (incl. closing a cycle from both ends) are covered under the preemption bound; WithUpcastOptions at construction is a separate entry."),
 "C01": dict(text="Registry as an inductive step against a reference registry: arbitrary pre-state (registrations over several types and handler identities, optional prior removal), ONE arbitrary API operation, then probe publishes and counts for every type; plus every Once/Async/Sequential/context-aware/filter option combination over consecutive publishes with symbolic values.",
             ref="§3 C01", note=NOTE_COMMON + " Shard routing with solver-chosen type names (replayed by renaming the declared types) and re-entrant operations from inside handlers are separate entries."),
 "C04": dict(text="Once handler over every history of eligible / filter-rejected / cancelled-context / other-type publishes (sync and async, with and without filter, ordinary handlers around it): fires exactly once iff an eligible publish occurred, counted until then; two concurrent publishers racing for one Once handler under the preemption bound with the race monitor.",
             ref="§3 C04", note=NOTE_COMMON),
 "C05": dict(text="Every arrangement of panicking and non-panicking handlers (plain/context-aware, Once/Async/Sequential) over two publishes and Wait: no panic escapes (engine outcome), every handler still runs once, panic handler (installed by option or setter, with or without an observability layer) once per panic with event/type/value, also when the handler cancelled its context first; no deadlock on the second publish (sequential lock released).",
             ref="§3 C05", note=NOTE_COMMON),
 "C08": dict(text="Handler lists of sync/async x plain/context-aware handlers, cancellation before the call / by handler k / never, every subset of the four publish hooks: trace oracle over hook and handler start/end events, context values and cancellation seen by context-aware handlers; the otel module's hooks-as-observability composition is a separate entry over recording providers.",
             ref="§3 C08", note=NOTE_COMMON + " context is a Go-source model of package context."),
 "C17": dict(text="Every acyclic upcaster graph over 4 names within the edge bound (several upcasters per source), a failure at any single step: callback sees the whole chain's composition or the original event, error handler once with the failing step; typed upcaster = JSON of f(decoded) incl. interface-typed source fields; the same through SubscribeWithReplay.",
             ref="§3 C17", note=NOTE_COMMON),
 "C12": dict(text="Every history of publishes (two event types), SubscribeWithReplay for two ids, and restarts within the length bound over the real memory stores; one fault per history (failure of any single store operation, or a crash right after any store operation, by a dead-process wrapper); oracle: no persisted event lost, log order within a run, redelivery only of positions never saved, saved offset monotone, exactly once without faults.",
             ref="§3 C12, Appendix C", note=NOTE_COMMON + " The SQLite store (file or :memory:) is covered for fault-free histories and for one failing driver operation through the database/sql model; a subscriber handler that publishes a follow-up event is part of the histories; a publisher interleaved with a running SubscribeWithReplay and concurrent live publishers are separate entries under the preemption bound (their defects are recorded known findings); the durable-streams store is outside this claim (see DESIGN)."),
 "C18": dict(text="Materializer driven through the real helpers, bus, memory store and Replay: every sequence of M insert/update/delete/reset/snapshot/unregistered messages over two entity types with SMT-string keys, strict or not, split into two sessions at any point; state compared with a last-writer-wins fold through a universally quantified probe key; a longer-log entry over a smaller alphabet; resume over the SQLite store (database/sql model) as a separate entry.",
             ref="§3 C18, Appendix C", note=NOTE_COMMON),
 "C19": dict(text="Round trip at JSON-tree level for every helper x option subset x arbitrary strings/nested entity, protocol field names read back from the stored tree; Apply on an arbitrary document (invalid, or an arbitrary tree refined lazily by the decoder's own case distinctions): never panics, error leaves collections and LastOffset unchanged; a round trip through the SQLite store at every AUTOINCREMENT base position.",
             ref="§3 C19", note=NOTE_COMMON + " The byte-level JSON scanner/encoder (escaping, number syntax, UTF-8) is trusted std code outside the claim: 'every byte string' is covered as 'not JSON, or any tree the parser can produce'."),
 "C20": dict(text="Recording Observability whose start callbacks hand out child contexts with fresh ids; workloads mixing Once/Async/filtered/panicking handlers, cancelled contexts (also cancelled by a running handler), absent/succeeding/failing persistence and unencodable events: pairs balanced, complete gets its start's context, error flags truthful, handler/persist contexts descend from the publish context; an Async(+Sequential) handler whose publish is cancelled right after it returned, under the preemption bound.",
             ref="§3 C20", note=NOTE_COMMON + " The OpenTelemetry implementation (otel module) runs over recording tracer/meter providers (Go-source model of the otel API surface it uses); the OTel SDK itself is outside the claim."),
 "C02": dict(text="Two goroutines performing short symbolic sequences of Subscribe(Once/filter)/Unsubscribe/Clear/Publish on shared handlers: every interleaving of their synchronisation operations within the preemption bound is executed, with invoke/return stamps and the real-time delivery rule of Appendix C plus the quiescent must/may registry as oracle; an Async(+Sequential) handler whose deliveries race with its removal; race monitor on.",
             ref="§3 C02, Appendix C", note=NOTE_COMMON + " Schedules are enumerated (lazy context-bounded scheme, iterative preemption bound), the solver decides the data under each schedule. Bounds: 2 goroutines, 2+1 (quick) / 2+2 (thorough) operations, at most 2 / 3 preemptions; more goroutines, operations or preemptions are outside the claim."),
 "C03": dict(text="Happens-before race monitor and deadlock detector over every pair of concurrent API operations (registry, persistence/replay, upcast registry, memory store, materializer) within the preemption bound, plus every single re-entrant call from handler, filter, before- and after-hook, panic handler and persistence error handler (writer-preferring RWMutex model); SQLite store: replay callbacks calling back into the store under the database/sql connection-pool model.",
             ref="§3 C03", note=NOTE_COMMON + " Outside: concurrency inside SQLite, durable-streams and the OTel SDK (modernc sqlite and net/http are not encoded; of database/sql only the connection-pool limit is modelled), configuration setters, more than two concurrent operations, preemptions above the bound."),
 "C06": dict(text="Async handlers that yield mid-way and publish second-level async work, two async handlers of one type, Wait and Shutdown(ctx) racing with a canceller goroutine and a Close-counting store, Shutdown called twice, ClearAll before Shutdown, a publish context cancelled while the invocation runs: every interleaving within the preemption bound.",
             ref="§3 C06", note=NOTE_COMMON + " 'Every processor count' is subsumed by 'every schedule within the preemption bound'; real timers are outside."),
 "C07": dict(text="Sequential handler (enter; yield; exit; may panic) under 2-3 concurrent synchronous publishers, under Async dispatch, through Publish[any] and with a replay subscription catching up while a live publish arrives: never two invocations inside, every event exactly once; publish order of Async+Sequential is a recorded known finding (KF-C07-async-order), still checked so that it is reported once.",
             ref="§3 C07", note=NOTE_COMMON),
}

# entries added in rounds 7-8 (DESIGN §3, second table)
EXTRA = {
 "C01": " Also: an earlier publish to every type before the operation, SubscribeContext among the operations.",
 "C03": " Also: a handler unsubscribing itself; pairs of waiters (Wait/Shutdown/Publish) with an async invocation in flight (sync.Cond, TryLock modelled).",
 "C04": " Also: the after-publish hook's view of a fired Once handler, incl. a hook that panics.",
 "C05": " Also: a panicking handler subscribed through SubscribeWithReplay (handler type reported); a panic handler that takes the faulty handler off the bus during the publish.",
 "C06": " Also: two waiters at once, Shutdown after a successful Shutdown, a panic report that is still running and publishing.",
 "C07": " Also: registry changes around a Sequential handler, Once retirement while it is being subscribed.",
 "C08": " Also: context values under arbitrary string keys with the OpenTelemetry observability; all four hooks around a delivery that changes the registry (Once handlers present).",
 "C09": " Also: a lost append acknowledgement on the durable-streams store; a store that completes only after the persistence deadline.",
 "C10": " Also: a failed-then-retried SaveOffset on SQLite; concurrent appends on the memory store; streamed events retained beyond the iteration step.",
 "C11": " Also: replay resumed from event offsets on the durable-streams store (strict server; lenient server = recorded finding), 11-12 events in one response.",
 "C12": " Also: a resumed subscription followed by a fault; SQLite streaming row by row; the durable-streams store with a separate subscription store (death mid-replay, restart) through the transport model.",
 "C13": " Also: appends acknowledged after the deadline passed, an application hook after the store, a publisher deadline next to the persistence timeout.",
 "C15": " Also: same-name distinct (function-local) types, instantiated generic types, the state package's own messages (unit in package state).",
 "C16": " Also: every sequence/order of registrations over arbitrary SMT-string names through the public API (5-6 registrations), typed registration with arbitrary TypeNamer names.",
 "C17": " Also: error handler explicitly nil or removed, a refused registration before the replay.",
 "C18": " Also: header timestamps decreasing along the log, messages inside an application envelope type.",
 "C19": " Also: helpers and collection instantiated with an interface type.",
 "C20": " Also: two publishers contending for the store lock, a handler ending with runtime.Goexit.",
}
for _k, _v in EXTRA.items():
    CLAIMS[_k]["text"] += _v

NOT_APPLICABLE = {
 "C14": "durability across SIGKILL/reopen is a property of SQLite's pager/WAL (modernc.org/sqlite, machine-translated C) and the kernel; it cannot be encoded by an SSA->SMT translator within reach, and a model that assumed durability would prove nothing (DESIGN §4)",
}

PENDING = "check not yet built (engine stage pending in this session); no other technique is substituted"

def main():
    props = [json.loads(l)["id"] for l in open(os.path.join(HERE, "properties.jsonl"))]
    checks = []
    for pid in props:
        if pid not in CLAIMS:
            continue
        c = CLAIMS[pid]
        checks.append({
            "property_id": pid,
            "quick_cmd": "./check %s quick" % pid,
            "thorough_cmd": "./check %s thorough" % pid,
            "evidence_file": "/verif/evidence/%s.json" % pid,
            "replay_cmd_template": "./check %s --replay {path}" % pid,
            "engine": "gosx",
            "level_claimed": {"category": "model_checking", "text": c["text"], "design_ref": c["ref"]},
            "level_note": c["note"],
            "technique": TECH,
        })
    na = []
    for pid in props:
        if pid in CLAIMS:
            continue
        na.append({"property_id": pid, "reason": NOT_APPLICABLE.get(pid, PENDING)})
    m = {
        "version": 1,
        "setup_cmd": "cd /verif/engine && GOFLAGS=-mod=mod GOPROXY=off go build -o /verif/bin/gosx . && cd /verif && ./tools/warm.sh",
        "hooks": {"guard": "verif", "enable": "none needed: harnesses, models and replay tests enter through go/packages and go test overlays; /repo is never modified",
                  "baseline_off_cmd": json.load(open("/root/.vp/BASELINE.json"))["cmd"],
                  "source_commits": [], "add_only": True},
        "engines": [{"name": "gosx", "path": "/verif/engine", "serves_properties": sorted(CLAIMS),
                     "kind_free_text": "own symbolic interpreter for go/ssa (x/tools v0.50.0) with an incremental z3 back end; DFS over decision vectors by re-execution; lazy context-bounded scheduling with a happens-before race monitor"}],
        "checks": checks,
        "not_applicable": na,
        "notes": "Exit 2 = inconclusive (unsupported construct, solver unknown, unwinding failure, vacuous harness, unconfirmed counterexample); it does not occur on the unchanged tree at the registered bounds.",
    }
    json.dump(m, open(os.path.join(HERE, "MANIFEST.json"), "w"), indent=1)

if __name__ == "__main__":
    main()
