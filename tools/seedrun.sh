#!/bin/bash
# usage: tools/seedrun.sh [seed ids...]   (default: all)  -- applies each kept seeded change to /repo, runs the
# property's quick check, restores /repo, records the outcome in seeded/<id>/result.txt
cd /verif
R=${SEED_REPO:-/repo}
ids="$@"; [ -z "$ids" ] && ids=$(ls seeded)
for sid in $ids; do
  P=${sid%%-*}
  git -C $R diff --quiet || { echo "/repo is not clean"; exit 3; }
  # seeded/<id>/base_commit: the change was written against that commit of jilio/ebu and collides with a later
  # fix: commit; it is then evaluated on a scratch worktree at that commit (never on /repo itself)
  head=$(git -C $R rev-parse HEAD)
  if [ -f seeded/$sid/base_commit ]; then
    [ "$R" = /repo ] && { echo "$sid: needs a scratch worktree (SEED_REPO)"; continue; }
    git -C $R checkout -q $(cat seeded/$sid/base_commit)
  fi
  git -C $R apply /verif/seeded/$sid/patch.diff || { echo "$sid: does not apply"; git -C $R checkout -q $head; continue; }
  res=""
  # seeded/<id>/extra_checks names further properties whose checks are run against this change
  for Q in $P $(cat seeded/$sid/extra_checks 2>/dev/null); do
    out=$(env VERIF_SCRATCH_EVIDENCE=1 VERIF_REPO=$R timeout 900 ./check $Q quick 2>&1); rc=$?
    lab=$(echo "$out" | grep -o "entry=[A-Za-z0-9]* label=[a-zA-Z0-9_-]*" | head -2 | tr '\n' ';')
    res="$res $Q:quick:rc=$rc:$lab"
    echo "$sid $Q rc=$rc $lab"
  done
  git -C $R checkout -- .
  git -C $R checkout -q $head
  echo "$res" > seeded/$sid/result.txt
done
