#!/bin/bash
# usage: tools/seedrun.sh [seed ids...]   (default: all)  -- applies each kept seeded change to /repo, runs the
# property's quick check, restores /repo, records the outcome in seeded/<id>/result.txt
cd /verif
R=${SEED_REPO:-/repo}
ids="$@"; [ -z "$ids" ] && ids=$(ls seeded)
for sid in $ids; do
  P=${sid%%-*}
  git -C $R diff --quiet || { echo "/repo is not clean"; exit 3; }
  git -C $R apply /verif/seeded/$sid/patch.diff || { echo "$sid: does not apply"; continue; }
  out=$(env VERIF_SCRATCH_EVIDENCE=1 VERIF_REPO=$R timeout 900 ./check $P quick 2>&1); rc=$?
  git -C $R checkout -- .
  lab=$(echo "$out" | grep -o "entry=[A-Za-z0-9]* label=[a-zA-Z0-9_-]*" | head -2 | tr '\n' ';')
  echo "$P:quick:rc=$rc:$lab" > seeded/$sid/result.txt
  echo "$sid rc=$rc $lab"
done
