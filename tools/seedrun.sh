#!/bin/bash
# usage: tools/seedrun.sh [seed ids...]   (default: all)  -- applies each kept seeded change to /repo, runs the
# property's quick check, restores /repo, records the outcome in seeded/<id>/result.txt
cd /verif
R=${SEED_REPO:-/repo}
ids="$@"; [ -z "$ids" ] && ids=$(ls seeded)
for sid in $ids; do
  P=${sid%%-*}
  git -C $R diff --quiet || { echo "/repo is not clean"; exit 3; }
  git -C $R apply /verif/seeded/$sid/patch.diff || { echo "$sid: does not apply"; continue; }
  res=""
  # seeded/<id>/extra_checks names further properties whose checks are run against this change
  for Q in $P $(cat seeded/$sid/extra_checks 2>/dev/null); do
    out=$(env VERIF_SCRATCH_EVIDENCE=1 VERIF_REPO=$R timeout 900 ./check $Q quick 2>&1); rc=$?
    lab=$(echo "$out" | grep -o "entry=[A-Za-z0-9]* label=[a-zA-Z0-9_-]*" | head -2 | tr '\n' ';')
    res="$res $Q:quick:rc=$rc:$lab"
    echo "$sid $Q rc=$rc $lab"
  done
  git -C $R checkout -- .
  echo "$res" > seeded/$sid/result.txt
done
