#!/bin/bash
# usage: tools/thorough_all.sh [ids...]  -- runs the thorough tier of the given (default: all) properties one after
# another on the clean /repo, each under a time limit, and prints one line per property
cd "$(dirname "$0")/.."
ids="$@"; [ -z "$ids" ] && ids="C16 C03 C06 C20 C13 C18 C12 C17 C10 C11 C15 C19 C04 C05 C07 C08 C09 C01 C02"
[ -x bin/gosx ] || (cd engine && GOFLAGS=-mod=mod GOPROXY=off go build -o ../bin/gosx .)
for p in $ids; do
  s=$(date +%s); out=$(VERIF_SCRATCH_EVIDENCE=1 timeout ${THOROUGH_LIMIT:-2700} ./check $p thorough 2>&1); r=$?; e=$(( $(date +%s) - s ))
  echo "$p thorough rc=$r ${e}s $(echo "$out" | grep -c KNOWN-FINDING) known"
  [ $r != 0 ] && echo "$out" | grep -v "^    in\|^  in\|KNOWN-FINDING" | tail -6
done
