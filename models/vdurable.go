package PKG

// Go-source model of a durable-streams server, plugged in below the REAL client
// library (symbolic mode only): NewClient is redirected to the library's own
// NewClientWithTransport with this transport, so Client / StreamWriter / Reader
// are the library's real code and only the HTTP boundary is modelled.
// Protocol as implemented by the library's memorystorage + handler: messages get
// zero-padded increasing offsets; a read returns a JSON array of the messages
// after the given offset (possibly only a first chunk of them: a server may cut
// a response at a byte limit) and the offset of the last message returned.

import (
	"context"
	"encoding/json"
	"errors"
	"fmt"

	dsl "github.com/ahimsalabs/durable-streams-go/durablestream"
	"github.com/ahimsalabs/durable-streams-go/durablestream/transport"
)

var vmDSErr = errors.New("vdurable: injected transport failure")

type vmDSStream struct {
	msgs        []json.RawMessage
	contentType string
}

var (
	vmDSStreams  = map[string]*vmDSStream{}
	vmDSFailRead = -1 // index of the Read request that fails (-1: none)
	vmDSReads    = 0
	vmDSChunked  = false // the server may cut read responses short
	vmDSStrict   = false // the server rejects offsets it did not issue (the library's own server parses a leading number and ignores the rest)
	vmDSFailAppend = -1  // index of the Append request the server answers with 503 (-1: none)
	vmDSAppends    = 0
	vmDSForeign    = false // another writer appends one message to the stream right before the rejected append arrives
	vmDSLostAck    = -1 // index of the Append request the server carries out but answers with 502 (a gateway losing the acknowledgement)
)

type vmDSTransport struct{ base string }

func vmDSOffset(i int) string { return fmt.Sprintf("%010d", i) }

func (t *vmDSTransport) stream(path string) *vmDSStream { return vmDSStreams[t.base+"/"+path] }

func (t *vmDSTransport) Create(ctx context.Context, req transport.CreateRequest) (*transport.CreateResponse, error) {
	s := t.stream(req.Path)
	if s == nil {
		s = &vmDSStream{contentType: req.ContentType}
		vmDSStreams[t.base+"/"+req.Path] = s
	}
	return &transport.CreateResponse{NextOffset: vmDSOffset(len(s.msgs))}, nil
}

func (t *vmDSTransport) Head(ctx context.Context, req transport.HeadRequest) (*transport.HeadResponse, error) {
	s := t.stream(req.Path)
	if s == nil {
		return nil, &transport.Error{Code: "NOT_FOUND", Message: "stream not found"}
	}
	return &transport.HeadResponse{ContentType: s.contentType, NextOffset: vmDSOffset(len(s.msgs))}, nil
}

func (t *vmDSTransport) Delete(ctx context.Context, req transport.DeleteRequest) error {
	delete(vmDSStreams, t.base+"/"+req.Path)
	return nil
}

func (t *vmDSTransport) Append(ctx context.Context, req transport.AppendRequest) (*transport.AppendResponse, error) {
	s := t.stream(req.Path)
	if s == nil {
		return nil, &transport.Error{Code: "NOT_FOUND", Message: "stream not found"}
	}
	if ctx.Err() != nil {
		return nil, ctx.Err()
	}
	i := vmDSAppends
	vmDSAppends++
	if i == vmDSFailAppend {
		if vmDSForeign {
			s.msgs = append(s.msgs, json.RawMessage(`{"type":"foreign","data":{"n":0}}`))
		}
		return nil, &transport.Error{Code: "UNAVAILABLE", Message: "service unavailable", StatusCode: 503}
	}
	s.msgs = append(s.msgs, json.RawMessage(req.Data))
	if i == vmDSLostAck {
		return nil, &transport.Error{Code: "UNAVAILABLE", Message: "bad gateway", StatusCode: 502}
	}
	return &transport.AppendResponse{NextOffset: vmDSOffset(len(s.msgs))}, nil
}

func (t *vmDSTransport) Read(ctx context.Context, req transport.ReadRequest) (*transport.ReadResponse, error) {
	s := t.stream(req.Path)
	if s == nil {
		return nil, &transport.Error{Code: "NOT_FOUND", Message: "stream not found"}
	}
	if ctx.Err() != nil {
		return nil, ctx.Err()
	}
	i := vmDSReads
	vmDSReads++
	if i == vmDSFailRead {
		return nil, vmDSErr
	}
	// offset -> index of the first message to return
	start := -1
	if req.Offset == "" || req.Offset == "-1" {
		start = 0
	} else {
		for k := 0; k <= len(s.msgs); k++ {
			if req.Offset == vmDSOffset(k) {
				start = k
			}
		}
	}
	if start < 0 && !vmDSStrict && len(req.Offset) >= 10 {
		// lenient parse as in the library's memorystorage (Sscanf %d): leading digits count
		for k := 0; k <= len(s.msgs); k++ {
			if req.Offset[:10] == vmDSOffset(k) {
				start = k
			}
		}
	}
	if start < 0 {
		return nil, &transport.Error{Code: "BAD_REQUEST", Message: "invalid offset"} // not an offset this server issued
	}
	n := len(s.msgs) - start
	if n > 1 && vmDSChunked {
		n = vInt(1, n) // a response cut short at the server's byte limit
	}
	next := req.Offset
	if next == "" || next == "-1" {
		next = vmDSOffset(0)
	}
	if n > 0 {
		next = vmDSOffset(start + n)
	}
	data, _ := json.Marshal(s.msgs[start : start+n])
	return &transport.ReadResponse{Data: data, NextOffset: next, UpToDate: start+n == len(s.msgs)}, nil
}

func (t *vmDSTransport) LongPoll(ctx context.Context, req transport.LongPollRequest) (*transport.ReadResponse, error) {
	return t.Read(ctx, transport.ReadRequest{Path: req.Path, Offset: req.Offset})
}

func (t *vmDSTransport) SSE(ctx context.Context, req transport.SSERequest) (transport.EventStream, error) {
	vUnsupported("vdurable: SSE is not modelled")
	return nil, nil
}

//verif:redirect github.com/ahimsalabs/durable-streams-go/durablestream.NewClient
func vmDSNewClient(baseURL string, cfg *dsl.ClientConfig) *dsl.Client {
	return dsl.NewClientWithTransport(&vmDSTransport{base: baseURL}, nil)
}

// vdsServer: symbolic-mode counterpart of the native helper (a fresh server per name).
func vdsServer(name string) string { return "http://model/" + name }

// The library's HTTP transport itself (reached when a store builds its client
// with NewClientWithTransport over NewHTTPTransport, possibly wrapped in the
// library's middleware, which then runs as real code): its requests go to the
// same model server.
var vmDSHTTP = map[*transport.HTTPTransport]*vmDSTransport{}

//verif:redirect github.com/ahimsalabs/durable-streams-go/durablestream/transport.NewHTTPTransport
func vmDSNewHTTPTransport(baseURL string, cfg *transport.HTTPConfig) *transport.HTTPTransport {
	t := new(transport.HTTPTransport)
	vmDSHTTP[t] = &vmDSTransport{base: baseURL}
	return t
}

//verif:redirect (*github.com/ahimsalabs/durable-streams-go/durablestream/transport.HTTPTransport).Create
func vmDSHTTPCreate(t *transport.HTTPTransport, ctx context.Context, req transport.CreateRequest) (*transport.CreateResponse, error) {
	return vmDSHTTP[t].Create(ctx, req)
}

//verif:redirect (*github.com/ahimsalabs/durable-streams-go/durablestream/transport.HTTPTransport).Head
func vmDSHTTPHead(t *transport.HTTPTransport, ctx context.Context, req transport.HeadRequest) (*transport.HeadResponse, error) {
	return vmDSHTTP[t].Head(ctx, req)
}

//verif:redirect (*github.com/ahimsalabs/durable-streams-go/durablestream/transport.HTTPTransport).Delete
func vmDSHTTPDelete(t *transport.HTTPTransport, ctx context.Context, req transport.DeleteRequest) error {
	return vmDSHTTP[t].Delete(ctx, req)
}

//verif:redirect (*github.com/ahimsalabs/durable-streams-go/durablestream/transport.HTTPTransport).Append
func vmDSHTTPAppend(t *transport.HTTPTransport, ctx context.Context, req transport.AppendRequest) (*transport.AppendResponse, error) {
	return vmDSHTTP[t].Append(ctx, req)
}

//verif:redirect (*github.com/ahimsalabs/durable-streams-go/durablestream/transport.HTTPTransport).Read
func vmDSHTTPRead(t *transport.HTTPTransport, ctx context.Context, req transport.ReadRequest) (*transport.ReadResponse, error) {
	return vmDSHTTP[t].Read(ctx, req)
}

//verif:redirect (*github.com/ahimsalabs/durable-streams-go/durablestream/transport.HTTPTransport).LongPoll
func vmDSHTTPLongPoll(t *transport.HTTPTransport, ctx context.Context, req transport.LongPollRequest) (*transport.ReadResponse, error) {
	return vmDSHTTP[t].LongPoll(ctx, req)
}
