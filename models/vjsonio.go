package PKG

// Go-source models of the streaming side of encoding/json and of the two bytes
// types it is usually fed from (symbolic mode only). A JSON document is one
// element of a byte slice in the engine's tree model, so a Buffer keeps its
// contents in a real slice: Bytes() aliases that slice exactly as the real
// Buffer does, and a Reset followed by another write overwrites what an earlier
// Bytes() result still points at.
//
// Not represented: the newline Encoder.Encode appends, indentation, HTML
// escaping, Decoder.Buffered/More/Token and reading one value out of several.

import (
	"bytes"
	"encoding/json"
	"errors"
	"io"
)

type vmBuf struct{ b []byte }

var vmBufs = map[*bytes.Buffer]*vmBuf{}

func vmBufOf(b *bytes.Buffer) *vmBuf {
	s := vmBufs[b]
	if s == nil {
		s = &vmBuf{}
		vmBufs[b] = s
	}
	return s
}

//verif:redirect (*bytes.Buffer).Write
func vmBufferWrite(b *bytes.Buffer, p []byte) (int, error) {
	s := vmBufOf(b)
	s.b = append(s.b, p...)
	return len(p), nil
}

//verif:redirect (*bytes.Buffer).WriteString
func vmBufferWriteString(b *bytes.Buffer, p string) (int, error) {
	s := vmBufOf(b)
	s.b = append(s.b, p...)
	return len(p), nil
}

//verif:redirect (*bytes.Buffer).WriteByte
func vmBufferWriteByte(b *bytes.Buffer, c byte) error {
	s := vmBufOf(b)
	s.b = append(s.b, c)
	return nil
}

//verif:redirect (*bytes.Buffer).Bytes
func vmBufferBytes(b *bytes.Buffer) []byte { return vmBufOf(b).b }

//verif:redirect (*bytes.Buffer).String
func vmBufferString(b *bytes.Buffer) string { return string(vmBufOf(b).b) }

//verif:redirect (*bytes.Buffer).Len
func vmBufferLen(b *bytes.Buffer) int { return len(vmBufOf(b).b) }

//verif:redirect (*bytes.Buffer).Reset
func vmBufferReset(b *bytes.Buffer) {
	s := vmBufOf(b)
	s.b = s.b[:0]
}

//verif:redirect bytes.NewBuffer
func vmBytesNewBuffer(p []byte) *bytes.Buffer {
	b := new(bytes.Buffer)
	vmBufs[b] = &vmBuf{b: p}
	return b
}

var vmReaders = map[*bytes.Reader][]byte{}

//verif:redirect bytes.NewReader
func vmBytesNewReader(p []byte) *bytes.Reader {
	r := new(bytes.Reader)
	vmReaders[r] = p
	return r
}

var vmEncs = map[*json.Encoder]io.Writer{}

//verif:redirect encoding/json.NewEncoder
func vmJSONNewEncoder(w io.Writer) *json.Encoder {
	e := new(json.Encoder)
	vmEncs[e] = w
	return e
}

//verif:redirect (*encoding/json.Encoder).Encode
func vmJSONEncode(e *json.Encoder, v any) error {
	data, err := json.Marshal(v)
	if err != nil {
		return err
	}
	_, err = vmEncs[e].Write(data)
	return err
}

//verif:redirect (*encoding/json.Encoder).SetEscapeHTML
func vmJSONSetEscapeHTML(e *json.Encoder, on bool) {}

type vmDec struct {
	r         io.Reader
	useNumber bool
	done      bool
}

var vmDecs = map[*json.Decoder]*vmDec{}

//verif:redirect encoding/json.NewDecoder
func vmJSONNewDecoder(r io.Reader) *json.Decoder {
	d := new(json.Decoder)
	vmDecs[d] = &vmDec{r: r}
	return d
}

//verif:redirect (*encoding/json.Decoder).UseNumber
func vmJSONUseNumber(d *json.Decoder) { vmDecs[d].useNumber = true }

//verif:redirect (*encoding/json.Decoder).Decode
func vmJSONDecode(d *json.Decoder, v any) error {
	st := vmDecs[d]
	if st.done {
		return io.EOF
	}
	st.done = true
	var data []byte
	switch r := st.r.(type) {
	case *bytes.Reader:
		data = vmReaders[r]
	case *bytes.Buffer:
		data = vmBufOf(r).b
	default:
		vUnsupported("vjsonio: json.Decoder over a reader that is not modelled")
	}
	if st.useNumber {
		return vJSONUnmarshalUseNumber(data, v)
	}
	return json.Unmarshal(data, v)
}

// Indentation and compaction change white space only: the document is the same.

//verif:redirect encoding/json.MarshalIndent
func vmJSONMarshalIndent(v any, prefix, indent string) ([]byte, error) { return json.Marshal(v) }

var vmJSONSyntax = errors.New("vjsonio: invalid JSON")

//verif:redirect encoding/json.Compact
func vmJSONCompact(dst *bytes.Buffer, src []byte) error {
	if !json.Valid(src) {
		return vmJSONSyntax
	}
	dst.Write(src)
	return nil
}

//verif:redirect encoding/json.Indent
func vmJSONIndent(dst *bytes.Buffer, src []byte, prefix, indent string) error {
	if !json.Valid(src) {
		return vmJSONSyntax
	}
	dst.Write(src)
	return nil
}
