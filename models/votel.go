package PKG

// The global OpenTelemetry providers (go.opentelemetry.io/otel.Tracer / Meter)
// are consulted by otel.New before the options replace them; they are modelled
// as the no-op implementations (symbolic mode only).

import (
	"go.opentelemetry.io/otel/metric"
	mnoop "go.opentelemetry.io/otel/metric/noop"
	"go.opentelemetry.io/otel/trace"
	tnoop "go.opentelemetry.io/otel/trace/noop"
)

//verif:redirect go.opentelemetry.io/otel.Tracer
func vmOtelTracer(name string, opts ...trace.TracerOption) trace.Tracer {
	return tnoop.Tracer{}
}

//verif:redirect go.opentelemetry.io/otel.Meter
func vmOtelMeter(name string, opts ...metric.MeterOption) metric.Meter {
	return mnoop.Meter{}
}
