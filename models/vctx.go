package PKG

// Go-source model of package context (symbolic mode only; native replays use
// the real package). Contract: cancellation closes Done() of the node and of
// every descendant, Err() is non-nil afterwards, Value walks to the root.
// A context made by WithTimeout/WithDeadline expires when a harness store
// calls vmCtxExpire on it (a symbolic choice made by that store).

import (
	"context"
	"sync"
	"time"
)

type vmCtx struct {
	parent      *vmCtx
	mu          sync.Mutex
	done        chan struct{}
	err         error
	key, val    any
	children    []*vmCtx
	cancelable  bool
	noCancel    bool // context.WithoutCancel: values are kept, cancellation is not
	mayExpire   bool
	deadline    time.Time
	hasDeadline bool
}

var vmBackground = &vmCtx{}

func (c *vmCtx) Deadline() (time.Time, bool) {
	for n := c; n != nil; n = n.parent {
		if n.noCancel {
			break
		}
		if n.hasDeadline {
			return n.deadline, true
		}
	}
	return time.Time{}, false
}

// owner returns the nearest node that owns a done channel.
func (c *vmCtx) owner() *vmCtx {
	for n := c; n != nil; n = n.parent {
		if n.noCancel {
			return nil
		}
		if n.cancelable {
			return n
		}
	}
	return nil
}

func (c *vmCtx) Done() <-chan struct{} {
	o := c.owner()
	if o == nil {
		return nil
	}
	return o.done
}

func (c *vmCtx) Err() error {
	o := c.owner()
	if o == nil {
		return nil
	}
	o.mu.Lock()
	err := o.err
	o.mu.Unlock()
	return err
}

func (c *vmCtx) Value(key any) any {
	for n := c; n != nil; n = n.parent {
		if n.key != nil && n.key == key {
			return n.val
		}
	}
	return nil
}

func (c *vmCtx) cancel(err error) {
	c.mu.Lock()
	if c.err != nil {
		c.mu.Unlock()
		return
	}
	c.err = err
	close(c.done)
	kids := c.children
	c.children = nil
	c.mu.Unlock()
	for _, k := range kids {
		k.cancel(err)
	}
}

func vmAsCtx(parent context.Context) *vmCtx {
	if p, ok := parent.(*vmCtx); ok {
		return p
	}
	if parent == nil {
		panic("cannot create context from nil parent")
	}
	// foreign context implementation: treated as a root
	return vmBackground
}

func vmNewCancelable(parent context.Context) *vmCtx {
	p := vmAsCtx(parent)
	c := &vmCtx{parent: p, done: make(chan struct{}), cancelable: true}
	if o := p.owner(); o != nil {
		o.mu.Lock()
		if o.err != nil {
			err := o.err
			o.mu.Unlock()
			c.cancel(err)
		} else {
			o.children = append(o.children, c)
			o.mu.Unlock()
		}
	}
	return c
}

//verif:redirect context.Background
func vmCtxBackground() context.Context { return vmBackground }

//verif:redirect context.TODO
func vmCtxTODO() context.Context { return vmBackground }

//verif:redirect context.WithCancel
func vmCtxWithCancel(parent context.Context) (context.Context, context.CancelFunc) {
	c := vmNewCancelable(parent)
	return c, func() { c.cancel(context.Canceled) }
}

//verif:redirect context.WithTimeout
func vmCtxWithTimeout(parent context.Context, d time.Duration) (context.Context, context.CancelFunc) {
	c := vmNewCancelable(parent)
	c.mayExpire = true
	c.hasDeadline = true
	if d <= 0 {
		c.cancel(context.DeadlineExceeded)
	}
	return c, func() { c.cancel(context.Canceled) }
}

//verif:redirect context.WithDeadline
func vmCtxWithDeadline(parent context.Context, t time.Time) (context.Context, context.CancelFunc) {
	c := vmNewCancelable(parent)
	c.mayExpire = true
	c.hasDeadline = true
	c.deadline = t
	return c, func() { c.cancel(context.Canceled) }
}

//verif:redirect context.WithoutCancel
func vmCtxWithoutCancel(parent context.Context) context.Context {
	return &vmCtx{parent: vmAsCtx(parent), noCancel: true}
}

//verif:redirect context.WithValue
func vmCtxWithValue(parent context.Context, key, val any) context.Context {
	if key == nil {
		panic("nil key")
	}
	return &vmCtx{parent: vmAsCtx(parent), key: key, val: val}
}

// vmCtxExpire makes the nearest deadline context above ctx expire now. Harness
// stores call it at the point where a real store would notice the deadline.
func vmCtxExpire(ctx context.Context) {
	c, ok := ctx.(*vmCtx)
	if !ok {
		return
	}
	for n := c; n != nil; n = n.parent {
		if n.mayExpire {
			n.cancel(context.DeadlineExceeded)
			return
		}
	}
}
