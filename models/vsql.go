package PKG

// Go-source model of database/sql over SQLite for stores/sqlite (symbolic mode
// only; native replays use the real driver). A two-table relational model:
// `events` with an AUTOINCREMENT position and `subscription_positions` with an
// upsert. The statements of store.go are recognised by the engine intrinsic
// vSQLKind, which parses the comparison operator, the LIMIT and the upsert
// guard out of the SQL text, so an edit of a comparison or a LIMIT changes the
// model's answer instead of being ignored. Databases are keyed by DSN, so two
// handles opened with one DSN see one database (as SQLite's shared cache does).
//
// Fault injection: vsqlArmFault(kind, n) makes the n-th fallible driver
// operation of that kind (exec, query, row fetch, scan, close) fail with vmSQLErr.

import (
	"context"
	"database/sql"
	"encoding/json"
	"errors"
	"time"
)

var vmSQLErr = errors.New("vsql: injected driver failure")

// fallible driver operation kinds
const (
	vmOpExec  = 0
	vmOpQuery = 1
	vmOpNext  = 2 // fetching the next row (including the fetch that finds the end)
	vmOpScan  = 3
	vmOpClose = 4
)

var (
	vmSQLFailKind = -1 // kind of the operation that fails (-1: none armed)
	vmSQLFailNth  = 0  // it is the n-th operation of that kind after arming (0-based)
	vmSQLCount    [5]int
	vmSQLHit      = false
)

// vsqlArmFault: the nth operation of the given kind from now on fails.
func vsqlArmFault(kind, nth int) {
	vmSQLFailKind, vmSQLFailNth = kind, nth
	vmSQLCount = [5]int{}
	vmSQLHit = false
}

func vsqlDisarm() bool {
	hit := vmSQLHit
	vmSQLFailKind = -1
	return hit
}

func vmSQLFault(kind int) bool {
	i := vmSQLCount[kind]
	vmSQLCount[kind]++
	if kind == vmSQLFailKind && i == vmSQLFailNth {
		vmSQLHit = true
		return true
	}
	return false
}

type vmEventRow struct {
	pos  int64
	typ  string
	data []byte
	ts   time.Time
}

type vmSubRow struct {
	id  string
	pos int64
}

type vmDatabase struct {
	events  []vmEventRow
	nextPos int64
	subs    []vmSubRow
	version int
}

type vmStmt struct {
	db    *vmDatabase
	sdb   *sql.DB
	query string
}

// vmPool models database/sql's connection limit (SetMaxOpenConns): an open
// result set or transaction holds a connection until it is closed; every other
// statement needs one for its duration. With the limit reached, the caller
// waits (for ever under a context that is never cancelled) - which is how a
// store that touches the database from inside its own cursor loop deadlocks.
type vmPool struct {
	sem chan struct{}
}

var vmPools = map[*sql.DB]*vmPool{}

//verif:redirect (*database/sql.DB).SetMaxOpenConns
func vmDBSetMaxOpenConns(db *sql.DB, n int) {
	if n > 0 {
		vmPools[db] = &vmPool{sem: make(chan struct{}, n)}
	} else {
		delete(vmPools, db)
	}
}

//verif:redirect (*database/sql.DB).SetMaxIdleConns
func vmDBSetMaxIdleConns(db *sql.DB, n int) {}

//verif:redirect (*database/sql.DB).SetConnMaxLifetime
func vmDBSetConnMaxLifetime(db *sql.DB, d time.Duration) {}

// vmAcquire takes a connection of db's pool (nil pool: unlimited).
func vmAcquire(db *sql.DB, ctx context.Context) (*vmPool, error) {
	p := vmPools[db]
	if p == nil {
		return nil, nil
	}
	if ctx == nil {
		p.sem <- struct{}{}
		return p, nil
	}
	select {
	case p.sem <- struct{}{}:
		return p, nil
	case <-ctx.Done():
		return nil, ctx.Err()
	}
}

func (p *vmPool) release() {
	if p != nil {
		<-p.sem
	}
}

type vmRows struct {
	pool   *vmPool // connection held until the rows are closed
	rows   []vmEventRow
	i      int // index of the current row (after Next)
	err    error
	closed bool
}

type vmRow struct {
	pos   int64
	found bool
	err   error
}

type vmResult struct{ id int64 }

func (r vmResult) LastInsertId() (int64, error) { return r.id, nil }
func (r vmResult) RowsAffected() (int64, error) { return 1, nil }

var (
	vmDatabases = map[string]*vmDatabase{}
	vmDBs       = map[*sql.DB]*vmDatabase{}
	vmStmts     = map[*sql.Stmt]*vmStmt{}
	vmRowsOf    = map[*sql.Rows]*vmRows{}
	vmRowOf     = map[*sql.Row]*vmRow{}
	vmTxs       = map[*sql.Tx]*vmDatabase{}
)

//verif:redirect database/sql.Open
func vmSQLOpen(driver, dsn string) (*sql.DB, error) {
	d := vmDatabases[dsn]
	if d == nil {
		d = &vmDatabase{}
		vmDatabases[dsn] = d
	}
	db := new(sql.DB)
	vmDBs[db] = d
	return db, nil
}

//verif:redirect (*database/sql.DB).Close
func vmDBClose(db *sql.DB) error { return nil }

//verif:redirect (*database/sql.DB).Exec
func vmDBExec(db *sql.DB, query string, args ...any) (sql.Result, error) {
	p, _ := vmAcquire(db, nil)
	defer p.release()
	return vmExec(vmDBs[db], query, args)
}

//verif:redirect (*database/sql.DB).ExecContext
func vmDBExecContext(db *sql.DB, ctx context.Context, query string, args ...any) (sql.Result, error) {
	if err := ctx.Err(); err != nil {
		return nil, err // database/sql does not start a statement under a context that is already done
	}
	p, err := vmAcquire(db, ctx)
	if err != nil {
		return nil, err
	}
	defer p.release()
	return vmExec(vmDBs[db], query, args)
}

//verif:redirect (*database/sql.DB).Prepare
func vmDBPrepare(db *sql.DB, query string) (*sql.Stmt, error) {
	k, _, _, _ := vSQLKind(query)
	if k == 0 {
		vUnsupported("vsql: statement not recognised by the model: " + query)
	}
	s := new(sql.Stmt)
	vmStmts[s] = &vmStmt{db: vmDBs[db], sdb: db, query: query}
	return s, nil
}

//verif:redirect (*database/sql.DB).QueryContext
func vmDBQueryContext(db *sql.DB, ctx context.Context, query string, args ...any) (*sql.Rows, error) {
	return vmQueryPooled(db, vmDBs[db], ctx, query, args)
}

func vmQueryPooled(db *sql.DB, d *vmDatabase, ctx context.Context, query string, args []any) (*sql.Rows, error) {
	p, err := vmAcquire(db, ctx)
	if err != nil {
		return nil, err
	}
	rows, err := vmQuery(d, ctx, query, args)
	if err != nil {
		p.release()
		return nil, err
	}
	vmRowsOf[rows].pool = p
	return rows, nil
}

func vmQueryRowPooled(db *sql.DB, d *vmDatabase, ctx context.Context, query string, args []any) *sql.Row {
	if cerr := ctx.Err(); cerr != nil {
		row := new(sql.Row)
		vmRowOf[row] = &vmRow{err: cerr}
		return row
	}
	p, err := vmAcquire(db, ctx)
	if err != nil {
		row := new(sql.Row)
		vmRowOf[row] = &vmRow{err: err}
		return row
	}
	defer p.release()
	return vmQueryRow(d, ctx, query, args)
}

//verif:redirect (*database/sql.DB).QueryRowContext
func vmDBQueryRowContext(db *sql.DB, ctx context.Context, query string, args ...any) *sql.Row {
	return vmQueryRowPooled(db, vmDBs[db], ctx, query, args)
}

//verif:redirect (*database/sql.DB).BeginTx
func vmDBBeginTx(db *sql.DB, ctx context.Context, opts *sql.TxOptions) (*sql.Tx, error) {
	p, err := vmAcquire(db, ctx)
	if err != nil {
		return nil, err
	}
	tx := new(sql.Tx)
	vmTxs[tx] = vmDBs[db]
	vmTxPool[tx] = p
	return tx, nil
}

var vmTxPool = map[*sql.Tx]*vmPool{}

func vmTxDone(tx *sql.Tx) {
	if p, ok := vmTxPool[tx]; ok {
		p.release()
		delete(vmTxPool, tx)
	}
}

//verif:redirect (*database/sql.Tx).ExecContext
func vmTxExecContext(tx *sql.Tx, ctx context.Context, query string, args ...any) (sql.Result, error) {
	if err := ctx.Err(); err != nil {
		return nil, err
	}
	return vmExec(vmTxs[tx], query, args)
}

//verif:redirect (*database/sql.Tx).Commit
func vmTxCommit(tx *sql.Tx) error { vmTxDone(tx); return nil }

//verif:redirect (*database/sql.Tx).Rollback
func vmTxRollback(tx *sql.Tx) error { vmTxDone(tx); return nil }

//verif:redirect (*database/sql.Stmt).Close
func vmStmtClose(s *sql.Stmt) error { return nil }

//verif:redirect (*database/sql.Stmt).ExecContext
func vmStmtExecContext(s *sql.Stmt, ctx context.Context, args ...any) (sql.Result, error) {
	st := vmStmts[s]
	if err := ctx.Err(); err != nil {
		return nil, err
	}
	p, err := vmAcquire(st.sdb, ctx)
	if err != nil {
		return nil, err
	}
	defer p.release()
	return vmExec(st.db, st.query, args)
}

//verif:redirect (*database/sql.Stmt).QueryContext
func vmStmtQueryContext(s *sql.Stmt, ctx context.Context, args ...any) (*sql.Rows, error) {
	st := vmStmts[s]
	return vmQueryPooled(st.sdb, st.db, ctx, st.query, args)
}

//verif:redirect (*database/sql.Stmt).QueryRowContext
func vmStmtQueryRowContext(s *sql.Stmt, ctx context.Context, args ...any) *sql.Row {
	st := vmStmts[s]
	return vmQueryRowPooled(st.sdb, st.db, ctx, st.query, args)
}

func vmArgInt(a any) int64 {
	switch v := a.(type) {
	case int64:
		return v
	case int:
		return int64(v)
	}
	vUnsupported("vsql: integer argument expected")
	return 0
}

func vmArgBytes(a any) []byte {
	switch v := a.(type) {
	case json.RawMessage:
		return v
	case []byte:
		return v
	}
	vUnsupported("vsql: bytes argument expected")
	return nil
}

func vmCmp(op int, a, b int64) bool {
	switch op {
	case 0:
		return a > b
	case 1:
		return a >= b
	case 2:
		return a < b
	case 3:
		return a <= b
	case 4:
		return a == b
	case 5:
		return a != b
	}
	return false
}

func vmExec(d *vmDatabase, query string, args []any) (sql.Result, error) {
	kind, _, _, guard := vSQLKind(query)
	switch kind {
	case 5: // PRAGMA / DDL: no effect in the model
		return vmResult{}, nil
	case 7: // INSERT INTO schema_version
		d.version = 1
		return vmResult{}, nil
	}
	if vmSQLFault(vmOpExec) {
		return nil, vmSQLErr
	}
	switch kind {
	case 1: // INSERT INTO events (type, data, timestamp)
		d.nextPos++
		row := vmEventRow{pos: d.nextPos, typ: args[0].(string), data: vmArgBytes(args[1]), ts: args[2].(time.Time)}
		d.events = append(d.events, row)
		return vmResult{id: row.pos}, nil
	case 3: // upsert into subscription_positions
		id, pos := args[0].(string), vmArgInt(args[1])
		for i := range d.subs {
			if d.subs[i].id == id {
				if guard < 0 || vmCmp(guard, pos, d.subs[i].pos) {
					d.subs[i].pos = pos
				}
				return vmResult{}, nil
			}
		}
		d.subs = append(d.subs, vmSubRow{id, pos})
		return vmResult{}, nil
	}
	vUnsupported("vsql: statement not recognised by the model: " + query)
	return nil, nil
}

func vmQuery(d *vmDatabase, ctx context.Context, query string, args []any) (*sql.Rows, error) {
	kind, cmp, hasLimit, _ := vSQLKind(query)
	if kind != 2 {
		vUnsupported("vsql: query not recognised by the model: " + query)
	}
	if ctx.Err() != nil {
		return nil, ctx.Err()
	}
	if vmSQLFault(vmOpQuery) {
		return nil, vmSQLErr
	}
	after := vmArgInt(args[0])
	limit := int64(-1)
	if hasLimit {
		limit = vmArgInt(args[1])
	}
	r := &vmRows{i: -1}
	for _, ev := range d.events { // ORDER BY position: rows are kept in position order
		if limit >= 0 && int64(len(r.rows)) >= limit {
			break
		}
		if vmCmp(cmp, ev.pos, after) {
			r.rows = append(r.rows, ev)
		}
	}
	rows := new(sql.Rows)
	vmRowsOf[rows] = r
	return rows, nil
}

func vmQueryRow(d *vmDatabase, ctx context.Context, query string, args []any) *sql.Row {
	kind, _, _, _ := vSQLKind(query)
	row := new(sql.Row)
	r := &vmRow{}
	vmRowOf[row] = r
	switch kind {
	case 6: // SELECT COALESCE(MAX(version), 0) FROM schema_version
		r.pos, r.found = int64(d.version), true
		return row
	case 4: // SELECT position FROM subscription_positions WHERE subscription_id = ?
		if vmSQLFault(vmOpQuery) {
			r.err = vmSQLErr
			return row
		}
		id := args[0].(string)
		for _, s := range d.subs {
			if s.id == id {
				r.pos, r.found = s.pos, true
			}
		}
		return row
	}
	vUnsupported("vsql: query not recognised by the model: " + query)
	return row
}

//verif:redirect (*database/sql.Row).Scan
func vmRowScan(row *sql.Row, dest ...any) error {
	r := vmRowOf[row]
	if r.err != nil {
		return r.err
	}
	if !r.found {
		return sql.ErrNoRows
	}
	switch d := dest[0].(type) {
	case *int64:
		*d = r.pos
	case *int:
		*d = int(r.pos)
	default:
		vUnsupported("vsql: Row.Scan destination")
	}
	return nil
}

//verif:redirect (*database/sql.Rows).Next
func vmRowsNext(rows *sql.Rows) bool {
	r := vmRowsOf[rows]
	if r.closed || r.err != nil {
		return false
	}
	if r.i+1 >= len(r.rows) {
		// end of the result set: the fetch that finds the end may itself fail
		if vmSQLFault(vmOpNext) {
			r.err = vmSQLErr
		}
		// database/sql closes the driver rows as soon as Next reports the end (or an
		// error); a failure of that close surfaces through Err() when nothing failed before
		r.closed = true
		r.pool.release()
		r.pool = nil
		if vmSQLFault(vmOpClose) && r.err == nil {
			r.err = vmSQLErr
		}
		return false
	}
	if vmSQLFault(vmOpNext) {
		// fetching the next row failed: Next reports false and Err() is set
		r.err = vmSQLErr
		r.closed = true
		r.pool.release()
		r.pool = nil
		vmSQLFault(vmOpClose) // the driver rows are closed; that close cannot add an error
		return false
	}
	r.i++
	return true
}

//verif:redirect (*database/sql.Rows).Scan
func vmRowsScan(rows *sql.Rows, dest ...any) error {
	r := vmRowsOf[rows]
	if r.closed || r.i < 0 || r.i >= len(r.rows) {
		return errors.New("sql: Rows are closed")
	}
	if vmSQLFault(vmOpScan) {
		return vmSQLErr
	}
	ev := r.rows[r.i]
	vals := []any{ev.pos, ev.typ, ev.data, ev.ts}
	for i, d := range dest {
		switch p := d.(type) {
		case *int64:
			*p = vals[i].(int64)
		case *string:
			*p = vals[i].(string)
		case *json.RawMessage:
			*p = vals[i].([]byte)
		case *[]byte:
			*p = vals[i].([]byte)
		case *time.Time:
			*p = vals[i].(time.Time)
		default:
			vUnsupported("vsql: Rows.Scan destination")
		}
	}
	return nil
}

//verif:redirect (*database/sql.Rows).Err
func vmRowsErr(rows *sql.Rows) error { return vmRowsOf[rows].err }

//verif:redirect (*database/sql.Rows).Close
func vmRowsClose(rows *sql.Rows) error {
	r := vmRowsOf[rows]
	already := r.closed
	r.closed = true
	if !already {
		r.pool.release()
		r.pool = nil
	}
	if !already && vmSQLFault(vmOpClose) {
		return vmSQLErr
	}
	return nil
}
