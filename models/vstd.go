package PKG

// Go-source models of small standard-library helpers whose real code leans on
// unsafe or the runtime (symbolic mode only).

import (
	"strings"
	"sync"
	"time"
)

// strings.Builder: the accumulated text is an ordinary string.
var vmBuilders = map[*strings.Builder]*string{}

func vmBuilderOf(b *strings.Builder) *string {
	p := vmBuilders[b]
	if p == nil {
		p = new(string)
		vmBuilders[b] = p
	}
	return p
}

//verif:redirect (*strings.Builder).WriteString
func vmBuilderWriteString(b *strings.Builder, s string) (int, error) {
	p := vmBuilderOf(b)
	*p = *p + s
	return len(s), nil
}

//verif:redirect (*strings.Builder).WriteByte
func vmBuilderWriteByte(b *strings.Builder, c byte) error {
	p := vmBuilderOf(b)
	*p = *p + string([]byte{c})
	return nil
}

//verif:redirect (*strings.Builder).WriteRune
func vmBuilderWriteRune(b *strings.Builder, r rune) (int, error) {
	p := vmBuilderOf(b)
	s := string(r)
	*p = *p + s
	return len(s), nil
}

//verif:redirect (*strings.Builder).Write
func vmBuilderWrite(b *strings.Builder, q []byte) (int, error) {
	p := vmBuilderOf(b)
	*p = *p + string(q)
	return len(q), nil
}

//verif:redirect (*strings.Builder).String
func vmBuilderString(b *strings.Builder) string { return *vmBuilderOf(b) }

//verif:redirect (*strings.Builder).Len
func vmBuilderLen(b *strings.Builder) int { return len(*vmBuilderOf(b)) }

//verif:redirect (*strings.Builder).Reset
func vmBuilderReset(b *strings.Builder) { *vmBuilderOf(b) = "" }

//verif:redirect (*strings.Builder).Grow
func vmBuilderGrow(b *strings.Builder, n int) {}

// sync.Pool: a LIFO free list. The real pool may drop items at any time; handing
// back what was put last is the behaviour under which reuse bugs show.
var vmPools2 = map[*sync.Pool]*[]any{}

//verif:redirect (*sync.Pool).Get
func vmPoolGet(p *sync.Pool) any {
	l := vmPools2[p]
	if l != nil && len(*l) > 0 {
		x := (*l)[len(*l)-1]
		*l = (*l)[:len(*l)-1]
		return x
	}
	if p.New != nil {
		return p.New()
	}
	return nil
}

//verif:redirect (*sync.Pool).Put
func vmPoolPut(p *sync.Pool, x any) {
	if x == nil {
		return
	}
	l := vmPools2[p]
	if l == nil {
		l = new([]any)
		vmPools2[p] = l
	}
	*l = append(*l, x)
}

// Timers: model time passes at once. A timer's channel is ready immediately; an
// AfterFunc callback runs in its own goroutine, which the scheduler may start
// at any later point, and Stop prevents it if it has not started yet.
type vmTimer struct {
	stopped, fired bool
	f              func()
}

var vmTimers = map[*time.Timer]*vmTimer{}

// vmTimerMu orders the model's own bookkeeping (so that the race monitor sees
// the timer state as synchronised, as the runtime's timer state is).
var vmTimerMu sync.Mutex

func (st *vmTimer) start() bool {
	vmTimerMu.Lock()
	defer vmTimerMu.Unlock()
	if st.stopped {
		return false
	}
	st.fired = true
	return true
}

func vmReadyChan() chan time.Time {
	ch := make(chan time.Time, 1)
	ch <- time.Time{}
	return ch
}

//verif:redirect time.After
func vmTimeAfter(d time.Duration) <-chan time.Time { return vmReadyChan() }

//verif:redirect time.NewTimer
func vmTimeNewTimer(d time.Duration) *time.Timer {
	t := new(time.Timer)
	t.C = vmReadyChan()
	vmTimerMu.Lock()
	vmTimers[t] = &vmTimer{fired: true}
	vmTimerMu.Unlock()
	return t
}

//verif:redirect time.AfterFunc
func vmTimeAfterFunc(d time.Duration, f func()) *time.Timer {
	t := new(time.Timer)
	st := &vmTimer{f: f}
	vmTimerMu.Lock()
	vmTimers[t] = st
	vmTimerMu.Unlock()
	go func() {
		if st.start() {
			f()
		}
	}()
	return t
}

//verif:redirect (*time.Timer).Stop
func vmTimerStop(t *time.Timer) bool {
	vmTimerMu.Lock()
	defer vmTimerMu.Unlock()
	st := vmTimers[t]
	if st == nil {
		return false
	}
	was := !st.fired && !st.stopped
	st.stopped = true
	return was
}

//verif:redirect (*time.Timer).Reset
func vmTimerReset(t *time.Timer, d time.Duration) bool {
	vmTimerMu.Lock()
	defer vmTimerMu.Unlock()
	st := vmTimers[t]
	if st == nil {
		return false
	}
	was := !st.fired && !st.stopped
	if st.f == nil {
		t.C = vmReadyChan()
		st.fired, st.stopped = true, false
		return was
	}
	nst := &vmTimer{f: st.f}
	st.stopped = true
	vmTimers[t] = nst
	go func() {
		if nst.start() {
			nst.f()
		}
	}()
	return was
}
