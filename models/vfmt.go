package PKG

// Go-source model of fmt.Errorf (symbolic mode only): the result is an error
// whose Unwrap is the %w operand; message texts are not modelled.

type vmWrapError struct {
	msg string
	err error
}

func (e *vmWrapError) Error() string { return e.msg }
func (e *vmWrapError) Unwrap() error { return e.err }

type vmPlainError struct{ msg string }

func (e *vmPlainError) Error() string { return e.msg }

//verif:redirect fmt.Errorf
func vmErrorf(format string, a ...any) error {
	arg := 0
	for i := 0; i < len(format); i++ {
		if format[i] != '%' {
			continue
		}
		i++
		for i < len(format) && (format[i] == '+' || format[i] == '-' || format[i] == '#' || format[i] == ' ' || format[i] == '.' || (format[i] >= '0' && format[i] <= '9')) {
			i++
		}
		if i >= len(format) {
			break
		}
		if format[i] == '%' {
			continue
		}
		if format[i] == 'w' && arg < len(a) {
			if we, ok := a[arg].(error); ok {
				return &vmWrapError{msg: format, err: we}
			}
		}
		arg++
	}
	return &vmPlainError{msg: format}
}
