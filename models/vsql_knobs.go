package PKG

// Symbolic-mode counterparts of harness/sqlite/native_extra.go.

func vsqlSetBase(s *SQLiteStore, p int) {
	vmDBs[s.db].nextPos = int64(p)
}

func vsqlFresh(path string) string { return path }
