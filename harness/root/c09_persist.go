package eventbus

import (
	"context"
	"encoding/json"
	"reflect"
	"time"
)

// c09Opts builds an option list containing WithStore at a symbolic position
// among a symbolic subset of the other bus options.
func c09Opts(st EventStore, hookRuns *int) []Option {
	others := []Option{}
	if vBool() {
		others = append(others, WithBeforePublishContext(func(ctx context.Context, t reflect.Type, ev any) { *hookRuns = *hookRuns + 1 }))
	}
	if vBool() {
		others = append(others, WithBeforePublish(func(t reflect.Type, ev any) {}))
	}
	if vBool() {
		others = append(others, WithAfterPublishContext(func(ctx context.Context, t reflect.Type, ev any) {}))
	}
	if vBool() {
		others = append(others, WithPersistenceTimeout(time.Second))
	}
	if vBool() {
		others = append(others, WithPersistenceErrorHandler(func(ev any, t reflect.Type, err error) {}))
	}
	pos := vInt(0, len(others))
	opts := []Option{}
	opts = append(opts, others[:pos]...)
	opts = append(opts, WithStore(st))
	opts = append(opts, others[pos:]...)
	return opts
}

//verif:entry property=C09 tier=both bounds="every subset of 5 other bus options with WithStore at every position; K publishes (K_quick=2,K_thorough=3) of value, pointer and custom-named events with symbolic fields; store read from inside the handler" cover="published" K_quick=2 K_thorough=3
func harnessC09Config() {
	K := vParam("K", 2)
	ctx := context.Background()
	st := NewMemoryStore()
	hookRuns := 0
	bus := New(c09Opts(st, &hookRuns)...)
	evNamedName = vStr("custom-name")

	// handlers look at the store while they run
	seenAtHandler := -1
	lastTypeAtHandler := ""
	peek := func() {
		evs, _, _ := st.Read(ctx, OffsetOldest, 0)
		seenAtHandler = len(evs)
		if len(evs) > 0 {
			lastTypeAtHandler = evs[len(evs)-1].Type
		}
	}
	Subscribe(bus, func(e evA) { peek() })
	Subscribe(bus, func(e *evA) { peek() })
	Subscribe(bus, func(e evNamed) { peek() })

	type want struct {
		typ  string
		n    int
		s    string
		kind int
	}
	var wants []want
	for i := 0; i < K; i++ {
		kind := vInt(0, 2)
		n := vInt(-5, 5)
		seenAtHandler = -1
		switch kind {
		case 0:
			e := evA{N: n, S: vStr("s")}
			Publish(bus, e)
			wants = append(wants, want{EventType(e), n, e.S, 0})
		case 1:
			e := &evA{N: n}
			Publish(bus, e)
			wants = append(wants, want{EventType(e), n, "", 1})
		case 2:
			e := evNamed{N: n}
			Publish(bus, e)
			wants = append(wants, want{EventType(e), n, "", 2})
		}
		// recorded before delivery: the handler already saw this publish's record
		vAssert(seenAtHandler == i+1, "record-visible-to-handler")
		vAssert(lastTypeAtHandler == wants[i].typ, "record-type-visible-to-handler")
	}
	evs, _, err := st.Read(ctx, OffsetOldest, 0)
	vAssert(err == nil && len(evs) == K, "exactly-one-record-per-publish")
	for i := range evs {
		vAssert(evs[i].Type == wants[i].typ, "record-type-is-EventType")
		if i > 0 {
			vAssert(evs[i-1].Offset < evs[i].Offset, "offsets-strictly-increase")
		}
		switch wants[i].kind {
		case 0, 1:
			var d evA
			vAssert(json.Unmarshal(evs[i].Data, &d) == nil, "record-decodes")
			vAssert(d.N == wants[i].n && d.S == wants[i].s, "record-decodes-to-published-value")
		case 2:
			var d evNamed
			vAssert(json.Unmarshal(evs[i].Data, &d) == nil, "record-decodes")
			vAssert(d.N == wants[i].n, "record-decodes-to-published-value")
		}
	}
	vAssert(wants[0].typ != "" || evNamedName == "", "type-name-nonempty")
	vCover("published")
}
