package eventbus

import (
	"context"
	"encoding/json"
	"reflect"
	"sync"
	"time"
)

// c09Opts builds an option list containing WithStore at a symbolic position
// among a symbolic subset of the other bus options.
func c09Opts(st EventStore, hookRuns *int) []Option {
	others := []Option{}
	switch vInt(0, 2) {
	case 1:
		others = append(others, WithBeforePublishContext(func(ctx context.Context, t reflect.Type, ev any) { *hookRuns = *hookRuns + 1 }))
	case 2:
		others = append(others, WithBeforePublishContext(nil))
	}
	if vBool() {
		others = append(others, WithBeforePublish(func(t reflect.Type, ev any) {}))
	}
	if vBool() {
		others = append(others, WithAfterPublishContext(func(ctx context.Context, t reflect.Type, ev any) {}))
	}
	if vBool() {
		others = append(others, WithPersistenceTimeout(time.Second))
	}
	if vBool() {
		others = append(others, WithPersistenceErrorHandler(func(ev any, t reflect.Type, err error) {}))
	}
	pos := vInt(0, len(others))
	opts := []Option{}
	opts = append(opts, others[:pos]...)
	opts = append(opts, WithStore(st))
	opts = append(opts, others[pos:]...)
	return opts
}

//verif:entry property=C09 tier=both bounds="every subset of 5 other bus options (the context hook also as nil) with WithStore at every position; K publishes (K_quick=2,K_thorough=3) of value, pointer, nil-pointer, custom-named and value-named events with symbolic fields, optionally an upcasting replay before the log is inspected, on a store that honours its context; store read from inside the handler" cover="published" K_quick=2 K_thorough=3
func harnessC09Config() {
	K := vParam("K", 2)
	ctx := context.Background()
	st := NewMemoryStore()
	hookRuns := 0
	bus := New(c09Opts(ctxStore{st}, &hookRuns)...) // a store that honours its context, like the SQLite one
	evNamedName = vStr("custom-name")

	// handlers look at the store while they run
	seenAtHandler := -1
	lastTypeAtHandler := ""
	peek := func() {
		evs, _, _ := st.Read(ctx, OffsetOldest, 0)
		seenAtHandler = len(evs)
		if len(evs) > 0 {
			lastTypeAtHandler = evs[len(evs)-1].Type
		}
	}
	Subscribe(bus, func(e evA) { peek() })
	Subscribe(bus, func(e *evA) { peek() })
	Subscribe(bus, func(e evNamed) { peek() })
	Subscribe(bus, func(e evDyn) { peek() })
	Subscribe(bus, func(e evOwnBuf) { peek() })

	var ownBuf []byte
	type want struct {
		typ  string
		n    int
		s    string
		kind int
	}
	var wants []want
	for i := 0; i < K; i++ {
		kind := vInt(0, 5)
		n := vInt(-5, 5)
		seenAtHandler = -1
		switch kind {
		case 5:
			// an event that encodes itself into a buffer it keeps reusing: the record must not
			// change when the publisher scribbles over that buffer afterwards
			e := evOwnBuf{N: n, buf: &ownBuf}
			Publish(bus, e)
			other, _ := json.Marshal(evA{N: 77})
			ownBuf = append(ownBuf[:0], other...)
			wants = append(wants, want{EventType(e), n, "", 5})
		case 4:
			// a nil pointer is an event like any other: its record holds JSON null
			var e *evA
			Publish(bus, e)
			wants = append(wants, want{EventType(e), 0, "", 4})
		case 0:
			e := evA{N: n, S: vStr("s")}
			Publish(bus, e)
			wants = append(wants, want{EventType(e), n, e.S, 0})
		case 1:
			e := &evA{N: n}
			Publish(bus, e)
			wants = append(wants, want{EventType(e), n, "", 1})
		case 2:
			e := evNamed{N: n}
			Publish(bus, e)
			wants = append(wants, want{EventType(e), n, "", 2})
		case 3:
			e := evDyn{Name: vStr("dyn-name"), N: n} // the name is a property of the value
			Publish(bus, e)
			wants = append(wants, want{e.Name, n, "", 3})
		}
		// recorded before delivery: the handler already saw this publish's record
		vAssert(seenAtHandler == i+1, "record-visible-to-handler")
		vAssert(lastTypeAtHandler == wants[i].typ, "record-type-visible-to-handler")
	}
	// an upcasting replay in between is a view: it must leave the records as they are
	if vBool() {
		vAssert(RegisterUpcastFunc(bus, "eventbus.evA", "eventbus.evA.v2", func(d json.RawMessage) (json.RawMessage, string, error) {
			return json.RawMessage(`{"n":999}`), "eventbus.evA.v2", nil
		}) == nil, "register-ok")
		vAssert(bus.ReplayWithUpcast(ctx, OffsetOldest, func(*StoredEvent) error { return nil }) == nil, "replay-ok")
	}
	evs, _, err := st.Read(ctx, OffsetOldest, 0)
	vAssert(err == nil && len(evs) == K, "exactly-one-record-per-publish")
	for i := range evs {
		vAssert(evs[i].Type == wants[i].typ, "record-type-is-EventType")
		if i > 0 {
			vAssert(evs[i-1].Offset < evs[i].Offset, "offsets-strictly-increase")
		}
		switch wants[i].kind {
		case 0, 1:
			var d evA
			vAssert(json.Unmarshal(evs[i].Data, &d) == nil, "record-decodes")
			vAssert(d.N == wants[i].n && d.S == wants[i].s, "record-decodes-to-published-value")
		case 2:
			var d evNamed
			vAssert(json.Unmarshal(evs[i].Data, &d) == nil, "record-decodes")
			vAssert(d.N == wants[i].n, "record-decodes-to-published-value")
		case 5:
			var d evA
			vAssert(json.Unmarshal(evs[i].Data, &d) == nil, "record-decodes")
			vAssert(d.N == wants[i].n, "record-decodes-to-published-value")
		case 4:
			var d *evA = &evA{N: 1}
			vAssert(json.Unmarshal(evs[i].Data, &d) == nil && d == nil, "record-decodes-to-published-value")
		case 3:
			var d evDyn
			vAssert(json.Unmarshal(evs[i].Data, &d) == nil, "record-decodes")
			vAssert(d.N == wants[i].n && d.Name == wants[i].typ, "record-decodes-to-published-value")
		}
	}
	vCover("published")
}

// c09RawStore has no locking of its own: the bus must serialise appends.
type c09RawStore struct {
	events []*StoredEvent
	next   int
}

func (s *c09RawStore) Append(ctx context.Context, e *Event) (Offset, error) {
	s.next++
	n := s.next
	vYield()
	o := Offset([]byte{'0' + byte(n)})
	s.events = append(s.events, &StoredEvent{Offset: o, Type: e.Type, Data: e.Data})
	return o, nil
}

func (s *c09RawStore) Read(ctx context.Context, from Offset, limit int) ([]*StoredEvent, Offset, error) {
	return s.events, from, nil
}

//verif:entry property=C09 tier=both bounds="G concurrent publishers of one event each on a persistent bus whose store has no locking of its own; every interleaving within the preemption bound; race monitor on" cover="published" G_quick=2 G_thorough=3 preempt_quick=2 preempt_thorough=3 race=on
func harnessC09Concurrent() {
	G := vParam("G", 2)
	st := &c09RawStore{}
	bus := New(WithStore(st))
	var wg sync.WaitGroup
	for g := 0; g < G; g++ {
		wg.Add(1)
		n := g
		go func() {
			defer wg.Done()
			Publish(bus, evA{N: n})
		}()
	}
	wg.Wait()
	vAssert(len(st.events) == G, "exactly-one-record-per-publish")
	seen := make([]bool, G)
	for i, se := range st.events {
		var d evA
		vAssert(json.Unmarshal(se.Data, &d) == nil && d.N >= 0 && d.N < G && !seen[d.N], "each-publish-recorded-once")
		seen[d.N] = true
		if i > 0 {
			vAssert(st.events[i-1].Offset < se.Offset, "offsets-distinct-and-increasing")
		}
	}
	vCover("published")
}

//verif:entry property=C09 tier=both bounds="K publishes through PublishContext on the bundled MemoryStore (which does not look at the context), each with a context that is live, already cancelled, or ended by its deadline; optional persistence timeout; one record per publish regardless, no persistence error reported" cover="published" K_quick=2 K_thorough=3
func harnessC09EndedContext() {
	K := vParam("K", 2)
	st := NewMemoryStore()
	reported := 0
	opts := []Option{WithStore(st), WithPersistenceErrorHandler(func(ev any, t reflect.Type, err error) { reported++ })}
	if vBool() {
		opts = append(opts, WithPersistenceTimeout(time.Second))
	}
	bus := New(opts...)
	delivered := 0
	Subscribe(bus, func(e evA) { delivered++ })
	live := 0
	for i := 0; i < K; i++ {
		ctx, cancel := context.WithCancel(context.Background())
		switch vInt(0, 2) {
		case 0:
			live++
		case 1:
			cancel()
		case 2:
			var stop context.CancelFunc
			ctx, stop = context.WithTimeout(ctx, 0)
			defer stop()
		}
		PublishContext(bus, ctx, evA{N: i + 1})
		cancel()
	}
	evs, _, err := st.Read(context.Background(), OffsetOldest, 0)
	vAssert(err == nil && len(evs) == K, "exactly-one-record-per-publish")
	for i := range evs {
		var d evA
		vAssert(json.Unmarshal(evs[i].Data, &d) == nil && d.N == i+1, "record-decodes-to-published-value")
	}
	vAssert(reported == 0, "no-persistence-error-reported")
	_, _ = delivered, live
	vCover("published")
}

//verif:entry property=C09 tier=both bounds="a persistence timeout and a store that does not look at its context and, per append (symbolic), only completes after that deadline has passed: K publishes; each record is in the store when the handler of its publish runs, one record per publish, no failure reported for an append that succeeded" cover="slow-store" K_quick=2 K_thorough=3
func harnessC09SlowStore() {
	K := vParam("K", 2)
	mem := NewMemoryStore()
	fs := &flakyStore{inner: mem}
	reported := 0
	bus := New(WithStore(fs), WithPersistenceTimeout(time.Second),
		WithPersistenceErrorHandler(func(ev any, t reflect.Type, err error) { reported++ }))
	seenAtDelivery := make([]int, 0, K)
	Subscribe(bus, func(e evF) {
		evs, _, _ := mem.Read(context.Background(), OffsetOldest, 0)
		seenAtDelivery = append(seenAtDelivery, len(evs))
	})
	for i := 0; i < K; i++ {
		if vBool() {
			fs.outcomes = append(fs.outcomes, 4) // completes, but only after the deadline
		} else {
			fs.outcomes = append(fs.outcomes, 0)
		}
	}
	for i := 0; i < K; i++ {
		Publish(bus, evF{N: i + 1, F: 1})
		vAssert(len(seenAtDelivery) == i+1 && seenAtDelivery[i] == i+1, "record-visible-to-handler")
	}
	evs, _, err := mem.Read(context.Background(), OffsetOldest, 0)
	vAssert(err == nil && len(evs) == K, "exactly-one-record-per-publish")
	vAssert(reported == 0, "no-persistence-error-reported")
	vCover("slow-store")
}
