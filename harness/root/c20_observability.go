package eventbus

import (
	"context"
	"math"
	"runtime"
	"sync"
	"time"
)

type c20Key struct{}

type c20Ev struct {
	kind   int // 1 pubStart 2 pubDone 3 hStart 4 hDone 5 pStart 6 pDone
	id     int // span id given out by a start / carried by the context of a complete
	parent int // id carried by the context a start received
	err    bool
	async  bool
	typ    string
}

// c20Obs records every callback; every start returns a child context carrying a fresh id.
type c20Obs struct {
	mu   sync.Mutex
	next int
	evs  []c20Ev
}

func c20ID(ctx context.Context) int {
	if v, ok := ctx.Value(c20Key{}).(int); ok {
		return v
	}
	return 0
}

func (o *c20Obs) start(ctx context.Context, kind int, typ string, async bool) context.Context {
	o.mu.Lock()
	o.next++
	id := o.next
	o.evs = append(o.evs, c20Ev{kind: kind, id: id, parent: c20ID(ctx), typ: typ, async: async})
	o.mu.Unlock()
	return context.WithValue(ctx, c20Key{}, id)
}

func (o *c20Obs) done(ctx context.Context, kind int, err error) {
	o.mu.Lock()
	o.evs = append(o.evs, c20Ev{kind: kind, id: c20ID(ctx), err: err != nil})
	o.mu.Unlock()
}

func (o *c20Obs) OnPublishStart(ctx context.Context, t string, ev any) context.Context {
	return o.start(ctx, 1, t, false)
}
func (o *c20Obs) OnPublishComplete(ctx context.Context, t string) { o.done(ctx, 2, nil) }
func (o *c20Obs) OnHandlerStart(ctx context.Context, t string, async bool) context.Context {
	return o.start(ctx, 3, t, async)
}
func (o *c20Obs) OnHandlerComplete(ctx context.Context, d time.Duration, err error) {
	o.done(ctx, 4, err)
}
func (o *c20Obs) OnPersistStart(ctx context.Context, t string, pos int64) context.Context {
	return o.start(ctx, 5, t, false)
}
func (o *c20Obs) OnPersistComplete(ctx context.Context, d time.Duration, err error) {
	o.done(ctx, 6, err)
}

//verif:entry property=C20 tier=both bounds="n<=N handlers each with arbitrary Once/Async/filter(reject)/panics flags; P publishes each with live or already-cancelled context; persistence absent / succeeding / failing / event not encodable per publish, with or without a persistence timeout" cover="checked" N_quick=2 N_thorough=3 P_quick=2 P_thorough=2
func harnessC20BusLevel() {
	N, P := vParam("N", 2), vParam("P", 2)
	obs := &c20Obs{}
	opts := []Option{WithObservability(obs), WithPanicHandler(nil)}
	persist := vBool()
	fs := &flakyStore{inner: NewMemoryStore()}
	if persist {
		opts = append(opts, WithStore(fs))
		if vBool() {
			opts = append(opts, WithPersistenceTimeout(time.Second))
		}
	}
	bus := New(opts...)
	n := vInt(0, N)
	type hd struct {
		once, async, reject, panics bool
	}
	hs := make([]hd, n)
	var mu sync.Mutex
	runs := 0     // handler bodies executed
	panicked := 0 // of which panicked
	asyncRuns := 0
	var seenParent []int // span id seen by context-aware handler bodies
	for i := 0; i < n; i++ {
		h := hd{once: vBool(), async: vBool(), reject: vBool(), panics: vBool()}
		hs[i] = h
		var so []SubscribeOption
		if h.once {
			so = append(so, Once())
		}
		if h.async {
			so = append(so, Async())
		}
		if h.reject {
			so = append(so, WithFilter(func(e evA) bool { return false }))
		}
		SubscribeContext(bus, func(ctx context.Context, e evA) {
			mu.Lock()
			runs++
			if h.async {
				asyncRuns++
			}
			seenParent = append(seenParent, c20ID(ctx))
			if h.panics {
				panicked++
			}
			mu.Unlock()
			if h.panics {
				panic("boom")
			}
		}, so...)
	}
	attempts, failures := 0, 0
	for p := 0; p < P; p++ {
		ctx := context.Background()
		if vBool() {
			c, cancel := context.WithCancel(ctx)
			cancel()
			ctx = c
		}
		if persist && vBool() {
			// an event without a JSON encoding: nothing is handed to the store, so there is
			// no append attempt (and no handler: nobody subscribes to this type)
			PublishContext(bus, ctx, evF{N: p, F: math.NaN()})
			continue
		}
		if persist {
			out := vInt(0, 1)
			fs.outcomes = append(fs.outcomes, out)
			attempts++
			failures += out
		}
		PublishContext(bus, ctx, evA{N: p})
	}
	bus.Wait()

	// ---- oracle over the recorded trace
	cnt := func(kind int) int {
		c := 0
		for _, e := range obs.evs {
			if e.kind == kind {
				c++
			}
		}
		return c
	}
	vAssert(cnt(1) == P && cnt(2) == P, "one-publish-start-and-complete-per-publish")
	vAssert(cnt(3) == runs && cnt(4) == runs, "one-handler-start-and-complete-per-invocation")
	vAssert(cnt(5) == attempts && cnt(6) == attempts, "one-persist-start-and-complete-per-append-attempt")
	errH, errP, asyncStarts := 0, 0, 0
	for _, e := range obs.evs {
		switch e.kind {
		case 3:
			if e.async {
				asyncStarts++
			}
			vAssert(e.typ == "eventbus.evA", "handler-start-gets-type")
		case 4:
			if e.err {
				errH++
			}
		case 6:
			if e.err {
				errP++
			}
		}
	}
	vAssert(errH == panicked, "handler-complete-error-iff-panicked")
	vAssert(errP == failures, "persist-complete-error-iff-failed")
	vAssert(asyncStarts == asyncRuns, "async-flag-truthful")
	// every complete carries the context of exactly one start of its kind; starts descend from a publish
	for _, kinds := range [][2]int{{1, 2}, {3, 4}, {5, 6}} {
		for _, s := range obs.evs {
			if s.kind != kinds[0] {
				continue
			}
			m := 0
			for _, d := range obs.evs {
				if d.kind == kinds[1] && d.id == s.id {
					m++
				}
			}
			vAssert(m == 1, "complete-receives-context-of-its-start")
			if s.kind != 1 {
				isPub := false
				for _, q := range obs.evs {
					if q.kind == 1 && q.id == s.parent {
						isPub = true
					}
				}
				vAssert(isPub, "handler-and-persist-contexts-descend-from-publish")
			} else {
				vAssert(s.parent == 0, "publish-start-gets-caller-context")
			}
		}
	}
	// handler bodies run under the context returned by OnHandlerStart
	for _, sp := range seenParent {
		ok := false
		for _, s := range obs.evs {
			if s.kind == 3 && s.id == sp {
				ok = true
			}
		}
		vAssert(ok, "handler-runs-under-its-handler-context")
	}
	vCover("checked")
}

//verif:entry property=C20 tier=both bounds="one Async handler (optionally Sequential, optionally context-aware, optionally ending its goroutine with runtime.Goexit) and a publisher that cancels the publish context right after Publish returned; every interleaving within the preemption bound; handler start/complete pairs = invocations that really ran" cover="checked" preempt_quick=2 preempt_thorough=3 race=on
func harnessC20AsyncCancelled() {
	obs := &c20Obs{}
	bus := New(WithObservability(obs))
	var mu sync.Mutex
	runs := 0
	so := []SubscribeOption{Async()}
	if vBool() {
		so = append(so, Sequential())
	}
	goexit := vBool() // the handler ends its goroutine with runtime.Goexit (what t.FailNow and t.SkipNow do)
	body := func() {
		mu.Lock()
		runs++
		mu.Unlock()
		if goexit {
			runtime.Goexit()
		}
	}
	if vBool() {
		SubscribeContext(bus, func(ctx context.Context, e evA) { body() }, so...)
	} else {
		Subscribe(bus, func(e evA) { body() }, so...)
	}
	ctx, cancel := context.WithCancel(context.Background())
	PublishContext(bus, ctx, evA{N: 1})
	cancel()
	bus.Wait()
	vJoinAll()
	starts, completes := 0, 0
	obs.mu.Lock()
	for _, e := range obs.evs {
		if e.kind == 3 {
			starts++
		}
		if e.kind == 4 {
			completes++
		}
	}
	obs.mu.Unlock()
	mu.Lock()
	vAssert(starts == runs && completes == runs, "one-handler-start-and-complete-per-invocation")
	mu.Unlock()
	vCover("checked")
}

// c20SlowStore: a store whose first Append runs a hook (e.g. cancels somebody's context) and then lets the
// other goroutines run while the bus still holds its store lock.
type c20SlowStore struct {
	inner  *MemoryStore
	mu     sync.Mutex
	calls  int
	during func()
	fail   bool
}

func (s *c20SlowStore) Append(ctx context.Context, e *Event) (Offset, error) {
	s.mu.Lock()
	s.calls++
	first := s.calls == 1
	s.mu.Unlock()
	if first && s.during != nil {
		s.during()
	}
	vYield()
	if s.fail && !first {
		return "", errInjected
	}
	return s.inner.Append(context.Background(), e)
}
func (s *c20SlowStore) Read(ctx context.Context, from Offset, limit int) ([]*StoredEvent, Offset, error) {
	return s.inner.Read(ctx, from, limit)
}
func (s *c20SlowStore) SaveOffset(ctx context.Context, id string, o Offset) error {
	return s.inner.SaveOffset(ctx, id, o)
}
func (s *c20SlowStore) LoadOffset(ctx context.Context, id string) (Offset, error) {
	return s.inner.LoadOffset(ctx, id)
}

//verif:entry property=C20 tier=both bounds="two concurrent publishers on a persistent bus with observability (with or without a persistence timeout); the store lets the other goroutines run while an append is in flight, and the first append may cancel the other publisher's context meanwhile; the second append may fail; every interleaving within the preemption bound; persist start/complete pairs = append attempts, every publish and handler pair balanced" cover="checked" preempt_quick=2 preempt_thorough=3 race=on
func harnessC20ConcurrentPersist() {
	obs := &c20Obs{}
	st := &c20SlowStore{inner: NewMemoryStore(), fail: vBool()}
	opts := []Option{WithStore(st), WithObservability(obs)}
	if vBool() {
		opts = append(opts, WithPersistenceTimeout(time.Hour))
	}
	bus := New(opts...)
	var mu sync.Mutex
	runs := 0
	Subscribe(bus, func(e evA) { mu.Lock(); runs++; mu.Unlock() })
	ctx2, cancel2 := context.WithCancel(context.Background())
	defer cancel2()
	if vBool() {
		st.during = cancel2
	}
	var wg sync.WaitGroup
	wg.Add(2)
	go func() {
		defer wg.Done()
		PublishContext(bus, context.Background(), evA{N: 1})
	}()
	go func() {
		defer wg.Done()
		PublishContext(bus, ctx2, evA{N: 2})
	}()
	wg.Wait()
	vJoinAll()
	obs.mu.Lock()
	defer obs.mu.Unlock()
	open := map[int]int{} // id handed out by a start -> its kind
	counts := [7]int{}
	pErrs := 0
	for _, e := range obs.evs {
		counts[e.kind]++
		switch e.kind {
		case 1, 3, 5:
			open[e.id] = e.kind
		case 2, 4, 6:
			vAssert(open[e.id] == e.kind-1, "complete-gets-the-context-of-its-start")
			delete(open, e.id)
			if e.kind == 6 && e.err {
				pErrs++
			}
		}
	}
	vAssert(len(open) == 0, "every-start-has-its-complete")
	vAssert(counts[1] == 2 && counts[2] == 2, "one-publish-start-and-complete")
	st.mu.Lock()
	attempts := st.calls
	st.mu.Unlock()
	vAssert(counts[5] == attempts && counts[6] == attempts, "one-persist-pair-per-append-attempt")
	wantErrs := 0
	if st.fail && attempts == 2 {
		wantErrs = 1
	}
	vAssert(pErrs == wantErrs, "persist-complete-carries-error-iff-failed")
	mu.Lock()
	vAssert(counts[3] == runs && counts[4] == runs, "one-handler-start-and-complete-per-invocation")
	mu.Unlock()
	vCover("checked")
}
