package eventbus

import (
	"context"
	"reflect"
	"sync"
)

type c08Key string

//verif:entry property=C08 tier=both bounds="n<=N handlers each sync/async x plain/context-aware; cancellation point in {never, before the call (cancelled, or ended by its deadline), by a before hook, by handler k (which may then panic), by the filter of handler k}; event published as its own type or as an interface value; every subset of the four publish hooks, optionally a store at any position among them and the context-aware before hook given twice" cover="cancelled-before,cancelled-by-handler,never-cancelled" N_quick=2 N_thorough=3
func harnessC08Hooks() {
	N := vParam("N", 2)
	var mu sync.Mutex
	var trace []int // 1 before, 2 beforeCtx, 3 after, 4 afterCtx, 100+i handler i start, 200+i handler i end
	rec := func(x int) {
		mu.Lock()
		trace = append(trace, x)
		mu.Unlock()
	}
	hookB, hookBC, hookA, hookAC := vBool(), vBool(), vBool(), vBool()
	var cancelFromHook context.CancelFunc // set when a before hook is the one that cancels the publish context
	wantT := reflect.TypeOf(evA{})
	hookArgsOK := true
	var opts []Option
	// one of five configurations (not their cross product): 0 plain, 1 a store among the options,
	// 2 a store and the context-aware before hook given twice, 3 that hook given twice without a
	// store, 4 the two plain hooks installed with Set...Hook after construction
	variant := vPick(5)
	plainViaSetters := variant == 4
	fnB := func(t reflect.Type, ev any) {
		e, ok := ev.(evA)
		hookArgsOK = hookArgsOK && t == wantT && ok && e.N == 42
		rec(1)
		if cancelFromHook != nil {
			cancelFromHook()
		}
	}
	if hookB && !plainViaSetters {
		opts = append(opts, WithBeforePublish(fnB))
	}
	if hookBC {
		opts = append(opts, WithBeforePublishContext(func(ctx context.Context, t reflect.Type, ev any) {
			e, ok := ev.(evA)
			hookArgsOK = hookArgsOK && t == wantT && ok && e.N == 42
			rec(2)
			if cancelFromHook != nil {
				cancelFromHook()
			}
		}))
	}
	fnA := func(t reflect.Type, ev any) {
		e, ok := ev.(evA)
		hookArgsOK = hookArgsOK && t == wantT && ok && e.N == 42
		rec(3)
	}
	if hookA && !plainViaSetters {
		opts = append(opts, WithAfterPublish(fnA))
	}
	if hookAC {
		opts = append(opts, WithAfterPublishContext(func(ctx context.Context, t reflect.Type, ev any) {
			e, ok := ev.(evA)
			hookArgsOK = hookArgsOK && t == wantT && ok && e.N == 42
			rec(4)
		}))
	}
	// a store among the options (WithStore chains its persistence step onto the context-aware
	// before hook) and the context-aware before hook given a second time: the hook given last
	// is the one installed, it runs once per publish, the replaced one not at all
	if variant == 1 || variant == 2 {
		pos := vInt(0, len(opts))
		withStore := append(append(append([]Option{}, opts[:pos]...), WithStore(NewMemoryStore())), opts[pos:]...)
		opts = withStore
	}
	dupBC := hookBC && (variant == 2 || variant == 3)
	if dupBC {
		opts = append(opts, WithBeforePublishContext(func(ctx context.Context, t reflect.Type, ev any) {
			e, ok := ev.(evA)
			hookArgsOK = hookArgsOK && t == wantT && ok && e.N == 42
			rec(5)
		}))
	}
	if variant == 0 && vBool() {
		opts = append(opts, WithPanicHandler(nil)) // explicitly no panic handler: a handler panic is still contained
	}
	bus := New(opts...)
	if plainViaSetters {
		bus.SetPanicHandler(nil)
		if hookB {
			bus.SetBeforePublishHook(fnB)
		}
		if hookA {
			bus.SetAfterPublishHook(fnA)
		}
	}

	key := c08Key(vStr("ctx-key"))
	val := vInt(1, 1000)
	base, cancel := context.WithCancel(context.Background())
	ctx := context.WithValue(base, key, val)

	n := vInt(0, N)
	cancelAt := vInt(-3, n-1) // -3 a before hook cancels, -2 never, -1 before the call, k>=0: handler k (or its filter) cancels
	hookCancels := cancelAt == -3 && ((hookB && !plainViaSetters) || hookBC) && !dupBC
	if cancelAt == -3 && !hookCancels {
		cancelAt = -2
	}
	if hookCancels {
		cancelFromHook = cancel
	}
	byFilter := cancelAt >= 0 && vBool() // the filter of handler cancelAt cancels the context and accepts the event
	panicAfterCancel := vBool()          // the cancelling handler also panics afterwards
	async := make([]bool, n)
	ctxAware := make([]bool, n)
	ctxOK := true
	cancelledSoFar := false
	for i := 0; i < n; i++ {
		i := i
		async[i], ctxAware[i] = vBool(), vBool()
		var so []SubscribeOption
		if async[i] {
			so = append(so, Async())
		}
		body := func(hc context.Context) {
			rec(100 + i)
			if hc != nil {
				mu.Lock()
				v, ok := hc.Value(key).(int)
				ctxOK = ctxOK && ok && v == val
				if !async[i] {
					// synchronous handlers observe the cancellation state of the publish context
					ctxOK = ctxOK && ((hc.Err() != nil) == cancelledSoFar)
				}
				mu.Unlock()
			}
			if i == cancelAt && !byFilter {
				mu.Lock()
				cancelledSoFar = true
				mu.Unlock()
				cancel()
				if hc != nil {
					mu.Lock()
					ctxOK = ctxOK && hc.Err() != nil
					select {
					case <-hc.Done():
					default:
						ctxOK = false
					}
					mu.Unlock()
				}
			}
			rec(200 + i)
			if i == cancelAt && panicAfterCancel && !byFilter {
				panic("cancelled and gave up")
			}
		}
		if i == cancelAt && byFilter {
			so = append(so, WithFilter(func(e evA) bool {
				mu.Lock()
				cancelledSoFar = true
				mu.Unlock()
				cancel()
				return true
			}))
		}
		if ctxAware[i] {
			SubscribeContext(bus, func(hc context.Context, e evA) { body(hc) }, so...)
		} else {
			Subscribe(bus, func(e evA) { body(nil) }, so...)
		}
	}
	if cancelAt == -1 {
		if vBool() {
			cancel()
		} else {
			// the context has ended by its deadline instead (Err() == DeadlineExceeded)
			var stop context.CancelFunc
			ctx, stop = context.WithTimeout(ctx, 0)
			defer stop()
		}
	}
	if vBool() {
		PublishContext(bus, ctx, evA{N: 42})
	} else {
		// the same event handed over as an interface value
		PublishContext[any](bus, ctx, evA{N: 42})
	}
	mu.Lock()
	atReturn := len(trace)
	mu.Unlock()
	bus.Wait()

	vAssert(ctxOK, "context-aware-handlers-see-values-and-cancellation")
	vAssert(hookArgsOK, "hooks-get-event-and-type")
	count := func(x int) int {
		c := 0
		for _, t := range trace {
			if t == x {
				c++
			}
		}
		return c
	}
	idx := func(x int) int {
		for i, t := range trace {
			if t == x {
				return i
			}
		}
		return -1
	}
	firstHandler := len(trace)
	lastSyncEnd := -1
	for i, t := range trace {
		if t >= 100 && t < 200 && i < firstHandler {
			firstHandler = i
		}
		if t >= 200 && !async[t-200] {
			lastSyncEnd = i
		}
	}
	b2i := func(b bool) int {
		if b {
			return 1
		}
		return 0
	}
	if dupBC {
		vAssert(count(1) == b2i(hookB) && count(2) == 0 && count(5) == 1, "before-hooks-exactly-once")
		vAssert(idx(5) < firstHandler, "before-hook-precedes-handlers")
	} else {
		vAssert(count(1) == b2i(hookB) && count(2) == b2i(hookBC), "before-hooks-exactly-once")
	}
	vAssert(count(3) == b2i(hookA) && count(4) == b2i(hookAC), "after-hooks-exactly-once")
	if hookB {
		vAssert(idx(1) < firstHandler, "before-hook-precedes-handlers")
	}
	if hookBC && !dupBC {
		vAssert(idx(2) < firstHandler, "before-hook-precedes-handlers")
	}
	if hookA {
		vAssert(idx(3) > lastSyncEnd && idx(3) < atReturn, "after-hook-follows-sync-handlers")
	}
	if hookAC {
		vAssert(idx(4) > lastSyncEnd && idx(4) < atReturn, "after-hook-follows-sync-handlers")
	}
	switch {
	case hookCancels:
		// cancelled by a before hook: the publish reaches its handlers already cancelled
		vAssert(firstHandler == len(trace), "precancelled-no-handler-runs")
		vCover("cancelled-before")
	case cancelAt >= 0 && byFilter:
		// cancelled while the filter of handler k was being asked: neither that handler nor any
		// synchronous handler behind it is started
		started := false
		for i, t := range trace {
			if t == 100+cancelAt {
				started = true
			}
			_ = i
		}
		vAssert(!started, "no-sync-handler-after-cancel")
		for k := cancelAt + 1; k < n; k++ {
			if !async[k] {
				vAssert(count(100+k) == 0, "no-sync-handler-after-cancel")
			}
		}
		vCover("cancelled-by-handler")
	case cancelAt == -1:
		vAssert(firstHandler == len(trace), "precancelled-no-handler-runs")
		vCover("cancelled-before")
	case cancelAt >= 0 && count(100+cancelAt) == 1:
		// no synchronous handler starts after the cancelling handler returned
		end := idx(200 + cancelAt)
		for i := end + 1; i < len(trace); i++ {
			if trace[i] >= 100 && trace[i] < 200 {
				vAssert(async[trace[i]-100], "no-sync-handler-after-cancel")
			}
		}
		vCover("cancelled-by-handler")
	case cancelAt == -2:
		for i := 0; i < n; i++ {
			vAssert(count(100+i) == 1 && count(200+i) == 1, "live-context-every-handler-once")
		}
		vCover("never-cancelled")
	}
}

//verif:entry property=C08 tier=both bounds="all four publish hooks installed; two synchronous handlers with symbolic Once flags, the first of which changes the registry from inside the delivery (nothing / Clear of the type / ClearAll / unsubscribes itself / subscribes one more handler); two publishes (typed or interface-typed): per publish every before hook exactly once before any handler, every after hook exactly once after the last handler, with the event and its type" cover="hooks-around-registry-change"
func harnessC08HooksWithRegistryChanges() {
	var trace []int
	wantT := reflect.TypeOf(evA{})
	argsOK := true
	chk := func(t reflect.Type, ev any) {
		e, ok := ev.(evA)
		argsOK = argsOK && t == wantT && ok && e.N >= 40
	}
	bus := New(
		WithBeforePublish(func(t reflect.Type, ev any) { chk(t, ev); trace = append(trace, 1) }),
		WithBeforePublishContext(func(ctx context.Context, t reflect.Type, ev any) { chk(t, ev); trace = append(trace, 2) }),
		WithAfterPublish(func(t reflect.Type, ev any) { chk(t, ev); trace = append(trace, 3) }),
		WithAfterPublishContext(func(ctx context.Context, t reflect.Type, ev any) { chk(t, ev); trace = append(trace, 4) }),
	)
	action := vPick(5)
	once0, once1 := vBool(), vBool()
	var h0 Handler[evA]
	h0 = func(e evA) {
		trace = append(trace, 10)
		switch action {
		case 1:
			Clear[evA](bus)
		case 2:
			ClearAll(bus)
		case 3:
			_ = Unsubscribe[evA](bus, h0)
		case 4:
			_ = Subscribe(bus, func(e evA) { trace = append(trace, 12) })
		}
	}
	var so0, so1 []SubscribeOption
	if once0 {
		so0 = append(so0, Once())
	}
	if once1 {
		so1 = append(so1, Once())
	}
	vAssert(Subscribe(bus, h0, so0...) == nil, "subscribe-ok")
	vAssert(Subscribe(bus, func(e evA) { trace = append(trace, 11) }, so1...) == nil, "subscribe-ok")
	for p := 0; p < 2; p++ {
		trace = nil
		if vBool() {
			Publish[any](bus, evA{N: 40 + p})
		} else {
			Publish(bus, evA{N: 40 + p})
		}
		count := map[int]int{}
		firstHandler, lastHandler := -1, -1
		pos := map[int]int{}
		for i, x := range trace {
			count[x]++
			pos[x] = i
			if x >= 10 {
				if firstHandler < 0 {
					firstHandler = i
				}
				lastHandler = i
			}
		}
		vAssert(count[1] == 1 && count[2] == 1, "before-hooks-exactly-once")
		vAssert(count[3] == 1 && count[4] == 1, "after-hooks-exactly-once")
		if firstHandler >= 0 {
			vAssert(pos[1] < firstHandler && pos[2] < firstHandler, "before-hooks-precede-handlers")
			vAssert(pos[3] > lastHandler && pos[4] > lastHandler, "after-hooks-follow-sync-handlers")
		}
		vAssert(argsOK, "hooks-get-event-and-type")
	}
	vCover("hooks-around-registry-change")
}
