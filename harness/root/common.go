package eventbus

// Shared harness helpers (compiled in both symbolic mode and native replay).

import (
	"context"
	"errors"
	"iter"
)

type evA struct {
	N int    `json:"n"`
	S string `json:"s,omitempty"`
}
type evB struct {
	N int `json:"n"`
}
type evC struct {
	N int `json:"n"`
}

var errInjected = errors.New("verif: injected failure")
var errCallback = errors.New("verif: callback failure")

// pagedOnly hides ReadStream so that Replay takes the paged path; it can fail
// the failAt-th Read and counts Appends.
type pagedOnly struct {
	inner    *MemoryStore
	reads    int
	failAt   int // -1: never
	injected bool
	appends  int
}

func (p *pagedOnly) Append(ctx context.Context, e *Event) (Offset, error) {
	p.appends++
	return p.inner.Append(ctx, e)
}

func (p *pagedOnly) Read(ctx context.Context, from Offset, limit int) ([]*StoredEvent, Offset, error) {
	i := p.reads
	p.reads++
	if i == p.failAt {
		p.injected = true
		return nil, from, errInjected
	}
	return p.inner.Read(ctx, from, limit)
}

// spyStreamer exposes the real MemoryStore streaming path, can inject a
// yielded error before the failAt-th event and counts Appends.
type spyStreamer struct {
	inner    *MemoryStore
	failAt   int // -1: never
	injected bool
	appends  int
}

func (s *spyStreamer) Append(ctx context.Context, e *Event) (Offset, error) {
	s.appends++
	return s.inner.Append(ctx, e)
}

func (s *spyStreamer) Read(ctx context.Context, from Offset, limit int) ([]*StoredEvent, Offset, error) {
	return s.inner.Read(ctx, from, limit)
}

func (s *spyStreamer) ReadStream(ctx context.Context, from Offset) iter.Seq2[*StoredEvent, error] {
	return func(yield func(*StoredEvent, error) bool) {
		i := 0
		for ev, err := range s.inner.ReadStream(ctx, from) {
			if i == s.failAt {
				s.injected = true
				yield(nil, errInjected)
				return
			}
			i++
			if !yield(ev, err) {
				return
			}
		}
		if i == s.failAt {
			// failure at the end of the stream (iteration error after the last row)
			s.injected = true
			yield(nil, errInjected)
		}
	}
}

// fillStore appends n events of alternating types and returns their offsets.
func fillStore(st *MemoryStore, n int) []Offset {
	offs := make([]Offset, 0, n)
	for i := 0; i < n; i++ {
		typ := "eventbus.evA"
		if i%2 == 1 {
			typ = "eventbus.evB"
		}
		o, _ := st.Append(context.Background(), &Event{Type: typ, Data: []byte(`{"n":1}`)})
		offs = append(offs, o)
	}
	return offs
}
