package eventbus

// Shared harness helpers (compiled in both symbolic mode and native replay).

import (
	"context"
	"encoding/json"
	"errors"
	"io"
	"iter"
	"reflect"
	"time"
)

type evA struct {
	N int    `json:"n"`
	S string `json:"s,omitempty"`
}
type evB struct {
	N int `json:"n"`
}
type evC struct {
	N int `json:"n"`
}

var errInjected = errors.New("verif: injected failure")

// errReadFailure is what the read-side fault injectors return: errInjected, or -
// when a harness sets errReadEOFShaped - an error that also wraps io.EOF (a store
// whose connection was dropped mid-read reports exactly that).
var errReadEOFShaped = false

func errReadFailure() error {
	if errReadEOFShaped {
		return errors.Join(errInjected, io.EOF)
	}
	return errInjected
}

var errCallback = errors.New("verif: callback failure")

// pagedOnly hides ReadStream so that Replay takes the paged path; it can fail
// the failAt-th Read and counts Appends.
type pagedOnly struct {
	inner    *MemoryStore
	reads    int
	failAt   int // -1: never
	injected bool
	appends  int
	chunk    int // > 0: a page never holds more than chunk events (a store may return fewer than the limit)
}

func (p *pagedOnly) Append(ctx context.Context, e *Event) (Offset, error) {
	p.appends++
	return p.inner.Append(ctx, e)
}

func (p *pagedOnly) Read(ctx context.Context, from Offset, limit int) ([]*StoredEvent, Offset, error) {
	i := p.reads
	p.reads++
	if i == p.failAt {
		p.injected = true
		return nil, from, errReadFailure()
	}
	if p.chunk > 0 && (limit <= 0 || limit > p.chunk) {
		limit = p.chunk
	}
	return p.inner.Read(ctx, from, limit)
}

// spyStreamer exposes the real MemoryStore streaming path, can inject a
// yielded error before the failAt-th event and counts Appends.
type spyStreamer struct {
	inner    *MemoryStore
	failAt   int // -1: never
	injected bool
	appends  int
}

func (s *spyStreamer) Append(ctx context.Context, e *Event) (Offset, error) {
	s.appends++
	return s.inner.Append(ctx, e)
}

func (s *spyStreamer) Read(ctx context.Context, from Offset, limit int) ([]*StoredEvent, Offset, error) {
	return s.inner.Read(ctx, from, limit)
}

func (s *spyStreamer) ReadStream(ctx context.Context, from Offset) iter.Seq2[*StoredEvent, error] {
	return func(yield func(*StoredEvent, error) bool) {
		i := 0
		for ev, err := range s.inner.ReadStream(ctx, from) {
			if i == s.failAt {
				s.injected = true
				yield(nil, errReadFailure())
				return
			}
			i++
			if !yield(ev, err) {
				return
			}
		}
		if i == s.failAt {
			// failure at the end of the stream (iteration error after the last row)
			s.injected = true
			yield(nil, errReadFailure())
		}
	}
}

// fillStore appends n events of alternating types and returns their offsets.
func fillStore(st *MemoryStore, n int) []Offset {
	offs := make([]Offset, 0, n)
	for i := 0; i < n; i++ {
		typ := "eventbus.evA"
		if i%2 == 1 {
			typ = "eventbus.evB"
		}
		o, _ := st.Append(context.Background(), &Event{Type: typ, Data: []byte(`{"n":1}`)})
		offs = append(offs, o)
	}
	return offs
}

// ---- event shapes used by the persistence harnesses

type evBad struct {
	C chan int `json:"c"`
}

// evF is encodable unless F is NaN.
type evF struct {
	N int     `json:"n"`
	F float64 `json:"f"`
}

// evNamed carries a custom type name on a value receiver.
type evNamed struct {
	N int `json:"n"`
}

var evNamedName = "custom.named.v1"

func (e evNamed) EventTypeName() string { return evNamedName }

// evNamedP carries a custom type name on a pointer receiver.
type evNamedP struct {
	N int `json:"n"`
}

var evNamedPName = "custom.namedp.v1"

func (e *evNamedP) EventTypeName() string { return evNamedPName }

// flakyStore wraps the real MemoryStore; each Append consumes one outcome:
// 0 ok, 1 rejected with errInjected, 2 deadline expired, 4 acknowledged although the deadline passed meanwhile.
type flakyStore struct {
	inner       *MemoryStore
	outcomes    []int
	calls       int
	sawDeadline []bool // whether each Append's context carried a deadline
	// cancelShaped: rejections look like an abandoned operation (the error also wraps
	// context.Canceled) although the publish context is alive
	cancelShaped bool
	// callerDeadline: the deadline of the context the publisher handed in (zero: none); nearestIsCallers records
	// per Append whether the context's nearest deadline is that one (i.e. no tighter one was put in front of it)
	callerDeadline   time.Time
	nearestIsCallers []bool
}

func (f *flakyStore) Append(ctx context.Context, e *Event) (Offset, error) {
	if e.Type == "eventbus.evB" {
		// dead-letter events published by error handlers: always stored, not part of the scenario
		return f.inner.Append(ctx, e)
	}
	i := f.calls
	f.calls++
	dl, hasDeadline := ctx.Deadline()
	f.sawDeadline = append(f.sawDeadline, hasDeadline)
	callers := hasDeadline && !f.callerDeadline.IsZero() && dl.Equal(f.callerDeadline)
	f.nearestIsCallers = append(f.nearestIsCallers, callers)
	if callers {
		// only the publisher's far deadline is in force: it does not pass within this scenario
		return f.inner.Append(ctx, e)
	}
	out := 0
	if i < len(f.outcomes) {
		out = f.outcomes[i]
	}
	switch out {
	case 1:
		if f.cancelShaped {
			return "", errors.Join(errInjected, context.Canceled)
		}
		return "", errInjected
	case 2:
		vmCtxExpire(ctx)
		return "", context.DeadlineExceeded
	case 4:
		// a write that cannot be abandoned once begun: the deadline passes while it is in flight, it completes
		// all the same and is acknowledged
		vmCtxExpire(ctx)
		return f.inner.Append(context.Background(), e)
	}
	return f.inner.Append(ctx, e)
}

func (f *flakyStore) Read(ctx context.Context, from Offset, limit int) ([]*StoredEvent, Offset, error) {
	return f.inner.Read(ctx, from, limit)
}

func (f *flakyStore) SaveOffset(ctx context.Context, id string, o Offset) error {
	return f.inner.SaveOffset(ctx, id, o)
}

func (f *flakyStore) LoadOffset(ctx context.Context, id string) (Offset, error) {
	return f.inner.LoadOffset(ctx, id)
}

func jsonUnmarshalOK(data []byte, v any) bool { return json.Unmarshal(data, v) == nil }

func reflectTypeOf(x any) reflect.Type { return reflect.TypeOf(x) }

// evDyn carries its type name in the value: two events of this Go type may have different names.
type evDyn struct {
	Name string `json:"name"`
	N    int    `json:"n"`
}

func (e evDyn) EventTypeName() string { return e.Name }

// evSelfBad encodes itself, and what it produces is not JSON.
type evSelfBad struct{ N int }

func (e evSelfBad) MarshalJSON() ([]byte, error) { return []byte(`{"n":`), nil }

// ctxStore honours its context: an Append with a cancelled or expired context fails.
type ctxStore struct{ *MemoryStore }

func (s ctxStore) Append(ctx context.Context, e *Event) (Offset, error) {
	if err := ctx.Err(); err != nil {
		return "", err
	}
	return s.MemoryStore.Append(ctx, e)
}

// evOwnBuf encodes itself into a buffer it owns and reuses (like json.RawMessage, whose
// MarshalJSON hands out its own bytes).
type evOwnBuf struct {
	N   int
	buf *[]byte
}

func (e evOwnBuf) MarshalJSON() ([]byte, error) {
	b, err := json.Marshal(evA{N: e.N})
	if err != nil {
		return nil, err
	}
	*e.buf = append((*e.buf)[:0], b...)
	return *e.buf, nil
}
