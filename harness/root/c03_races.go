package eventbus

import (
	"context"
	"encoding/json"
	"reflect"
	"sync"
)

// c03Pair runs two operations chosen by the solver concurrently; the engine's
// happens-before monitor and deadlock detector are the oracle.
func c03Pair(ops []func()) {
	a, b := vPick(len(ops)), vPick(len(ops))
	var wg sync.WaitGroup
	wg.Add(2)
	go func() {
		defer wg.Done()
		ops[a]()
	}()
	go func() {
		defer wg.Done()
		ops[b]()
	}()
	wg.Wait()
	vJoinAll()
	vCover("pair-done")
}

//verif:entry property=C03 tier=both bounds="every pair of concurrent operations out of {Publish, PublishContext(cancelled), Subscribe, Subscribe(Once), Unsubscribe, Clear, ClearAll, HasHandlers, HandlerCount, Wait} on a bus with two subscribed handlers (one Async); every interleaving within the preemption bound; race monitor and deadlock detector" cover="pair-done" preempt_quick=2 preempt_thorough=3 race=on
func harnessC03RegistryPairs() {
	bus := New()
	Subscribe(bus, c01HA[0])
	Subscribe(bus, c01HA[1], Async())
	c01Log, c01Re = nil, nil
	ops := []func(){
		func() { Publish(bus, evA{N: 1}) },
		func() {
			ctx, cancel := context.WithCancel(context.Background())
			cancel()
			PublishContext(bus, ctx, evA{N: 2})
		},
		func() { Subscribe(bus, c01HA[2]) },
		func() { Subscribe(bus, c01HA[2], Once()) },
		func() { Unsubscribe[evA](bus, c01HA[0]) },
		func() { Clear[evA](bus) },
		func() { ClearAll(bus) },
		func() { _ = HasHandlers[evA](bus) },
		func() { _ = HandlerCount[evA](bus) },
		func() { bus.Wait() },
	}
	c03Pair(ops)
	bus.Wait()
}

//verif:entry property=C03 tier=both bounds="an asynchronous invocation already in flight, then every pair of concurrent operations out of {Wait, Shutdown(live context), Publish}; every interleaving within the preemption bound; race monitor and deadlock detector" cover="pair-done" preempt_quick=1 preempt_thorough=2 race=on
func harnessC03WaiterPairs() {
	bus := New()
	Subscribe(bus, c01HA[1], Async())
	c01Log, c01Re = nil, nil
	ops := []func(){
		func() { bus.Wait() },
		func() { _ = bus.Shutdown(context.Background()) },
		func() { Publish(bus, evA{N: 1}) },
	}
	Publish(bus, evA{N: 0})
	c03Pair(ops)
	bus.Wait()
}

//verif:entry property=C03 tier=both bounds="every pair of concurrent operations out of {Publish (persisted), Replay, SubscribeWithReplay, MemoryStore Append/Read/ReadStream/SaveOffset/LoadOffset} on a persistent bus with two stored events" cover="pair-done" preempt_quick=2 preempt_thorough=2 race=on
func harnessC03PersistPairs() {
	ctx := context.Background()
	st := NewMemoryStore()
	bus := New(WithStore(st))
	Publish(bus, evA{N: 1})
	Publish(bus, evA{N: 2})
	ops := []func(){
		func() { Publish(bus, evA{N: 3}) },
		func() { bus.Replay(ctx, OffsetOldest, func(e *StoredEvent) error { return nil }) },
		func() { SubscribeWithReplay(ctx, bus, "s", func(e evA) {}) },
		func() { st.Append(ctx, &Event{Type: "x", Data: json.RawMessage(`1`)}) },
		func() { st.Read(ctx, OffsetOldest, 1) },
		func() {
			for range st.ReadStream(ctx, OffsetOldest) {
			}
		},
		func() { st.SaveOffset(ctx, "s", "00000000000000000001") },
		func() { st.LoadOffset(ctx, "s") },
	}
	c03Pair(ops)
}

//verif:entry property=C03 tier=both bounds="every pair of concurrent operations out of {RegisterUpcastFunc, ReplayWithUpcast, ClearUpcasts, ClearUpcastsForType} on a persistent bus with two stored events, one raw and one typed upcaster" cover="pair-done" preempt_quick=2 preempt_thorough=3 race=on
func harnessC03UpcastPairs() {
	ctx := context.Background()
	st := NewMemoryStore()
	bus := New(WithStore(st))
	st.Append(ctx, &Event{Type: "A", Data: json.RawMessage(`{}`)})
	st.Append(ctx, &Event{Type: "eventbus.evA", Data: json.RawMessage(`{"n":1}`)})
	RegisterUpcastFunc(bus, "A", "B", func(d json.RawMessage) (json.RawMessage, string, error) { return d, "B", nil })
	RegisterUpcast(bus, func(a evA) evV2 { return evV2{N: a.N, V: 2} }) // a typed upcaster runs inside the registry's read lock
	ops := []func(){
		func() {
			RegisterUpcastFunc(bus, "B", "C", func(d json.RawMessage) (json.RawMessage, string, error) { return d, "C", nil })
		},
		func() { bus.ReplayWithUpcast(ctx, OffsetOldest, func(e *StoredEvent) error { return nil }) },
		func() { bus.ClearUpcasts() },
		func() { bus.ClearUpcastsForType("A") },
	}
	c03Pair(ops)
}

//verif:entry property=C03 tier=both bounds="re-entrancy: one call back into the same bus (publish other type, publish same type from a non-sequential handler, subscribe, unsubscribe of another handler or of the calling handler itself, clear, clear-all, HasHandlers, HandlerCount, or a panic of the handler) issued from inside a handler, a filter, a before-publish hook, an after-publish hook, the panic handler (after a handler panic) or the persistence error handler (after a rejected append); Sequential, Async and Once handler flags symbolic (synchronous self-delivery to a Sequential handler excluded as in the statement)" cover="reentrant-done"
func harnessC03Reentrant() {
	where := vPick(6) // 0 handler, 1 filter, 2 before hook, 3 after hook, 4 panic handler, 5 persistence error handler
	what := vPick(10)
	sequential := vBool()
	async := vBool() // the calling-back handler is dispatched asynchronously
	var bus *EventBus
	var once sync.Mutex
	fired := false
	var self Handler[evA] // the handler the call-back sites belong to
	action := func() {
		// exactly one call back per run (the first delivery), also when handlers run asynchronously
		once.Lock()
		f := fired
		fired = true
		once.Unlock()
		if f {
			return
		}
		switch what {
		case 0:
			Publish(bus, evB{N: 1})
		case 1:
			// publishing the type being delivered from inside a synchronous Sequential
			// handler would have to overlap itself: excluded by the statement
			vAssume(!(sequential && where == 0 && !async))
			Publish(bus, evA{N: 2})
		case 2:
			Subscribe(bus, c01HA[2])
		case 3:
			Unsubscribe[evA](bus, c01HA[0])
		case 4:
			Clear[evA](bus)
		case 5:
			ClearAll(bus)
		case 6:
			_ = HasHandlers[evA](bus)
		case 7:
			_ = HandlerCount[evA](bus)
		case 8:
			// the handler gives up with a panic (recovered by the bus); only meaningful inside a handler
			vAssume(where == 0)
			panic("handler gives up")
		case 9:
			// the handler (Sequential or not) takes itself off the bus
			Unsubscribe[evA](bus, self)
		}
	}
	var opts []Option
	if where == 2 {
		opts = append(opts, WithBeforePublish(func(t reflect.Type, e any) { action() }))
	}
	if where == 3 {
		opts = append(opts, WithAfterPublishContext(func(ctx context.Context, t reflect.Type, e any) { action() }))
	}
	if where == 4 {
		vAssume(what != 8)
		opts = append(opts, WithPanicHandler(func(e any, t reflect.Type, v any) { action() }))
	}
	if where == 5 {
		vAssume(what != 8)
		// every append of the delivered type is rejected; the handler is told each time
		opts = append(opts, WithStore(&flakyStore{inner: NewMemoryStore(), outcomes: []int{1, 1, 1, 1}}),
			WithPersistenceErrorHandler(func(e any, t reflect.Type, err error) { action() }))
	}
	bus = New(opts...)
	c01Log, c01Re = nil, nil
	if where == 5 && vBool() {
		// a replay subscription is live on the bus while its appends fail
		SubscribeWithReplay(context.Background(), bus, "c03-sub", func(e evA) {})
	}
	var so []SubscribeOption
	if sequential {
		so = append(so, Sequential())
	}
	if async {
		so = append(so, Async())
	}
	if vBool() {
		so = append(so, Once()) // a one-shot handler calls back just the same
	}
	if where == 1 {
		so = append(so, WithFilter(func(e evA) bool { action(); return true }))
	}
	Subscribe(bus, c01HA[0])
	self = func(e evA) {
		if where == 0 {
			action()
		}
		if where == 4 {
			panic("handler fails")
		}
	}
	Subscribe(bus, self, so...)
	Subscribe(bus, c01HB[0])
	Publish(bus, evA{N: 1})
	bus.Wait()
	Publish(bus, evA{N: 3}) // the bus is still usable
	bus.Wait()
	vCover("reentrant-done")
}
