package eventbus

import (
	"context"
	"sync"
)

// ---- distinct handler identities (distinct functions, so Unsubscribe can tell them apart)

type c01Entry struct {
	typ, id, val int
}

var (
	c01Mu  sync.Mutex
	c01Log []c01Entry
	c01Re  func(typ, id int) // re-entrant action hook, run inside handlers
)

func c01Rec(typ, id, val int) {
	c01Mu.Lock()
	c01Log = append(c01Log, c01Entry{typ, id, val})
	c01Mu.Unlock()
	if c01Re != nil {
		c01Re(typ, id)
	}
}

func c01A0(e evA) { c01Rec(0, 0, e.N) }
func c01A1(e evA) { c01Rec(0, 1, e.N) }
func c01A2(e evA) { c01Rec(0, 2, e.N) }
func c01B0(e evB) { c01Rec(1, 0, e.N) }
func c01B1(e evB) { c01Rec(1, 1, e.N) }
func c01B2(e evB) { c01Rec(1, 2, e.N) }
func c01C0(e evC) { c01Rec(2, 0, e.N) }
func c01C1(e evC) { c01Rec(2, 1, e.N) }
func c01C2(e evC) { c01Rec(2, 2, e.N) }

func c01CA0(ctx context.Context, e evA) { c01Rec(0, 0, e.N) }
func c01CA1(ctx context.Context, e evA) { c01Rec(0, 1, e.N) }
func c01CA2(ctx context.Context, e evA) { c01Rec(0, 2, e.N) }

var c01HA = []Handler[evA]{c01A0, c01A1, c01A2}
var c01HB = []Handler[evB]{c01B0, c01B1, c01B2}
var c01HC = []Handler[evC]{c01C0, c01C1, c01C2}
var c01HCA = []ContextHandler[evA]{c01CA0, c01CA1, c01CA2}

// ---- reference registry

type c01Reg struct {
	id     int
	once   bool
	fired  bool
	async  bool
	filter int // 0 none, 1 accept all, 2 reject all, 3 N > cut
	cut    int
}

type c01Model struct {
	regs [3][]*c01Reg
}

func (m *c01Model) subscribe(typ int, r *c01Reg) { m.regs[typ] = append(m.regs[typ], r) }

func (m *c01Model) unsubscribe(typ, id int) bool {
	for i, r := range m.regs[typ] {
		if r.id == id {
			m.regs[typ] = append(append([]*c01Reg{}, m.regs[typ][:i]...), m.regs[typ][i+1:]...)
			return true
		}
	}
	return false
}

func (r *c01Reg) accepts(val int) bool {
	switch r.filter {
	case 2:
		return false
	case 3, 4:
		return val > r.cut
	}
	return true
}

// publish returns the expected deliveries (in subscription order) and retires fired once-handlers.
func (m *c01Model) publish(typ, val int, live bool) []c01Entry {
	var out []c01Entry
	var keep []*c01Reg
	for _, r := range m.regs[typ] {
		if !r.accepts(val) {
			keep = append(keep, r)
			continue
		}
		if r.once {
			if r.fired {
				continue
			}
			if !live {
				// a cancelled publish must not use the once handler up
				keep = append(keep, r)
				continue
			}
			r.fired = true
			out = append(out, c01Entry{typ, r.id, val})
			continue
		}
		keep = append(keep, r)
		if live {
			out = append(out, c01Entry{typ, r.id, val})
		}
	}
	m.regs[typ] = keep
	return out
}

// ---- real-bus operations by (type, id)

func c01Subscribe(bus *EventBus, typ, id int, opts ...SubscribeOption) error {
	switch typ {
	case 0:
		return Subscribe(bus, c01HA[id], opts...)
	case 1:
		return Subscribe(bus, c01HB[id], opts...)
	}
	return Subscribe(bus, c01HC[id], opts...)
}

func c01Unsubscribe(bus *EventBus, typ, id int) error {
	switch typ {
	case 0:
		return Unsubscribe[evA](bus, c01HA[id])
	case 1:
		return Unsubscribe[evB](bus, c01HB[id])
	}
	return Unsubscribe[evC](bus, c01HC[id])
}

func c01Publish(bus *EventBus, ctx context.Context, typ, val int) {
	switch typ {
	case 0:
		PublishContext(bus, ctx, evA{N: val})
	case 1:
		PublishContext(bus, ctx, evB{N: val})
	default:
		PublishContext(bus, ctx, evC{N: val})
	}
}

func c01Clear(bus *EventBus, typ int) {
	switch typ {
	case 0:
		Clear[evA](bus)
	case 1:
		Clear[evB](bus)
	default:
		Clear[evC](bus)
	}
}

func c01Count(bus *EventBus, typ int) (int, bool) {
	switch typ {
	case 0:
		return HandlerCount[evA](bus), HasHandlers[evA](bus)
	case 1:
		return HandlerCount[evB](bus), HasHandlers[evB](bus)
	}
	return HandlerCount[evC](bus), HasHandlers[evC](bus)
}

func c01TakeLog() []c01Entry {
	c01Mu.Lock()
	l := c01Log
	c01Log = nil
	c01Mu.Unlock()
	return l
}

func c01SameOrdered(got, want []c01Entry) bool {
	if len(got) != len(want) {
		return false
	}
	for i := range got {
		if got[i] != want[i] {
			return false
		}
	}
	return true
}

// c01Agree checks counts for all types and a probe publish to each type.
func c01Agree(bus *EventBus, m *c01Model, T int) {
	for t := 0; t < T; t++ {
		n, has := c01Count(bus, t)
		vAssert(n == len(m.regs[t]), "HandlerCount-agrees")
		vAssert(has == (len(m.regs[t]) > 0), "HasHandlers-agrees")
	}
	for t := 0; t < T; t++ {
		c01TakeLog()
		c01Publish(bus, context.Background(), t, 100+t)
		want := m.publish(t, 100+t, true)
		vAssert(c01SameOrdered(c01TakeLog(), want), "probe-delivery-matches-registry")
	}
}

//verif:entry property=C01 tier=both bounds="registry step: n<=N plain registrations over T types x I handler identities (duplicates allowed), optional prior Unsubscribe, optionally one earlier publish to every type, then ONE arbitrary operation out of Subscribe/SubscribeContext/Unsubscribe/Clear/ClearAll/Publish/PublishContext(cancelled)/counts, then probe publishes to every type" cover="op-subscribe,op-unsubscribe-ok,op-unsubscribe-missing,op-clear,op-clearall,op-publish,op-publish-cancelled" N_quick=2 N_thorough=3 T_quick=2 T_thorough=3 I_quick=2 I_thorough=3
func harnessC01RegistryStep() {
	N, T, I := vParam("N", 2), vParam("T", 2), vParam("I", 2)
	c01Log, c01Re = nil, nil
	bus := New()
	m := &c01Model{}
	n := vInt(0, N)
	for i := 0; i < n; i++ {
		typ, id := vPick(T), vPick(I)
		vAssert(c01Subscribe(bus, typ, id) == nil, "subscribe-ok")
		m.subscribe(typ, &c01Reg{id: id})
	}
	if vBool() {
		// a prior removal, so that slices with spare capacity occur
		typ, id := vPick(T), vPick(I)
		err := c01Unsubscribe(bus, typ, id)
		vAssert((err == nil) == m.unsubscribe(typ, id), "unsubscribe-error-iff-missing")
	}
	if vBool() {
		// every type has been published to before the operation (whatever a publish leaves behind -
		// snapshots, caches - is in place when the operation runs)
		for t := 0; t < T; t++ {
			c01TakeLog()
			c01Publish(bus, context.Background(), t, 50+t)
			vAssert(c01SameOrdered(c01TakeLog(), m.publish(t, 50+t, true)), "publish-delivers-exactly-registered-in-order")
		}
	}
	typ, id := vPick(T), vPick(I)
	switch vPick(6) {
	case 0:
		if typ == 0 && vBool() {
			// a context-aware handler is a registration like any other
			vAssert(SubscribeContext(bus, func(ctx context.Context, e evA) { c01Rec(0, 7, e.N) }) == nil, "subscribe-ok")
			m.subscribe(0, &c01Reg{id: 7})
		} else {
			vAssert(c01Subscribe(bus, typ, id) == nil, "subscribe-ok")
			m.subscribe(typ, &c01Reg{id: id})
		}
		vCover("op-subscribe")
	case 1:
		err := c01Unsubscribe(bus, typ, id)
		ok := m.unsubscribe(typ, id)
		vAssert((err == nil) == ok, "unsubscribe-error-iff-missing")
		if ok {
			vCover("op-unsubscribe-ok")
		} else {
			vCover("op-unsubscribe-missing")
		}
	case 2:
		c01Clear(bus, typ)
		m.regs[typ] = nil
		vCover("op-clear")
	case 3:
		ClearAll(bus)
		m.regs = [3][]*c01Reg{}
		vCover("op-clearall")
	case 4:
		v := vInt(-3, 3)
		c01TakeLog()
		c01Publish(bus, context.Background(), typ, v)
		vAssert(c01SameOrdered(c01TakeLog(), m.publish(typ, v, true)), "publish-delivers-exactly-registered-in-order")
		vCover("op-publish")
	case 5:
		ctx, cancel := context.WithCancel(context.Background())
		cancel()
		c01TakeLog()
		c01Publish(bus, ctx, typ, 7)
		vAssert(len(c01TakeLog()) == 0, "cancelled-publish-delivers-nothing")
		m.publish(typ, 7, false)
		vCover("op-publish-cancelled")
	}
	c01Agree(bus, m, T)
}

// c01Opts turns a model registration into subscribe options.
func c01Opts(r *c01Reg, sequential bool) []SubscribeOption {
	var opts []SubscribeOption
	if r.once {
		opts = append(opts, Once())
	}
	if r.async {
		opts = append(opts, Async())
	}
	if sequential {
		opts = append(opts, Sequential())
	}
	switch r.filter {
	case 1:
		opts = append(opts, WithFilter(func(e evA) bool { return true }))
	case 2:
		opts = append(opts, WithFilter(func(e evA) bool { return false }))
	case 3:
		cut := r.cut
		opts = append(opts, WithFilter(func(e evA) bool { return e.N > cut }))
	case 4:
		// a predicate typed on an interface the event satisfies
		cut := r.cut
		opts = append(opts, WithFilter(func(e any) bool {
			a, ok := e.(evA)
			return ok && a.N > cut
		}))
	}
	return opts
}

func c01SameMultiset(got, want []c01Entry) bool {
	if len(got) != len(want) {
		return false
	}
	used := make([]bool, len(want))
	for _, g := range got {
		found := false
		for j, w := range want {
			if !used[j] && g == w {
				used[j], found = true, true
				break
			}
		}
		if !found {
			return false
		}
	}
	return true
}

//verif:entry property=C01 tier=both bounds="options: one type, n<=N registrations each with arbitrary Once/Async/Sequential/context-aware flags and filter in {none, accept, reject, N>cut, N>cut as a predicate on any}; P consecutive publishes with symbolic values, each through Publish[T] or as an interface value; async deliveries compared as a multiset after Wait" cover="two-publishes" N_quick=2 N_thorough=3 P_quick=2 P_thorough=2
func harnessC01Options() {
	N, P := vParam("N", 2), vParam("P", 2)
	c01Log, c01Re = nil, nil
	bus := New()
	m := &c01Model{}
	n := vInt(1, N)
	for i := 0; i < n; i++ {
		r := &c01Reg{id: i, once: vBool(), async: vBool(), filter: vInt(0, 4)}
		if r.filter >= 3 {
			r.cut = vInt(-2, 2)
		}
		seq := vBool()
		c01AsyncByID[i] = r.async
		if vBool() {
			vAssert(SubscribeContext(bus, c01HCA[i], c01Opts(r, seq)...) == nil, "subscribe-ok")
		} else {
			vAssert(Subscribe(bus, c01HA[i], c01Opts(r, seq)...) == nil, "subscribe-ok")
		}
		m.subscribe(0, r)
	}
	for p := 0; p < P; p++ {
		v := vInt(-3, 3)
		c01TakeLog()
		if vBool() {
			c01Publish(bus, context.Background(), 0, v)
		} else {
			// the same event handed over as an interface value: same handlers, same filters
			PublishContext[any](bus, context.Background(), evA{N: v})
		}
		want := m.publish(0, v, true)
		bus.Wait()
		got := c01TakeLog()
		vAssert(c01SameMultiset(got, want), "each-accepting-handler-exactly-once")
		// synchronous deliveries keep subscription order
		var gs, ws []c01Entry
		for _, g := range got {
			if !c01IsAsync(m, g.id, n) {
				gs = append(gs, g)
			}
		}
		for _, w := range want {
			if !c01IsAsync(m, w.id, n) {
				ws = append(ws, w)
			}
		}
		vAssert(c01SameOrdered(gs, ws), "sync-handlers-in-subscription-order")
		cnt, _ := c01Count(bus, 0)
		vAssert(cnt == len(m.regs[0]), "HandlerCount-agrees-after-publish")
	}
	vCover("two-publishes")
}

var c01AsyncByID [3]bool

func c01IsAsync(m *c01Model, id, n int) bool { return c01AsyncByID[id] }
