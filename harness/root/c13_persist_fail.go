package eventbus

import (
	"context"
	"encoding/json"
	"errors"
	"math"
	"reflect"
	"time"
)

//verif:entry property=C13 tier=both bounds="K publishes (K_quick=3,K_thorough=4), each with outcome in {ok, unencodable event (by type or by value: NaN), append rejected (with a plain error or one that also wraps context.Canceled), deadline expired, acknowledged by the store although the persistence deadline passed during the append}; error handler present or nil; persistence timeout set or not (with it, the publisher's context optionally carrying a far deadline of its own); observability set or not (without it, optionally an application before-publish hook installed after the store); a replay subscription live on the bus or not" cover="all-ok,some-failed" K_quick=3 K_thorough=4
func harnessC13Failures() {
	K := vParam("K", 3)
	mem := NewMemoryStore()
	fs := &flakyStore{inner: mem, cancelShaped: vBool()}
	withHandler := vBool()
	withTimeout := vBool()
	withObs := vBool()

	type rep struct {
		ev  any
		typ reflect.Type
		err error
	}
	var reports []rep
	opts := []Option{WithStore(fs)}
	unencKind := vInt(0, 2) // the unencodable event: 0 by type (chan), 1 by value (NaN), 2 its own MarshalJSON yields invalid JSON
	deadLetter := vBool()   // the error handler publishes a (non-persistable) dead-letter event on the same bus
	var busRef *EventBus
	deadLetters := 0
	onErr := func(ev any, t reflect.Type, err error) {
		reports = append(reports, rep{ev, t, err})
		if deadLetter {
			deadLetters++
			Publish(busRef, evB{N: 9000}) // a persistable dead-letter event on the same bus
		}
	}
	handlerViaSetter := withHandler && vBool() // SetPersistenceErrorHandler after construction
	if withHandler && !handlerViaSetter {
		opts = append(opts, WithPersistenceErrorHandler(onErr))
	}
	if withTimeout {
		d := time.Second
		if vBool() {
			d = time.Nanosecond // a budget that is used up before the store is even reached
		}
		opts = append(opts, WithPersistenceTimeout(d))
	}
	if withObs {
		opts = append(opts, WithObservability(&c20Obs{}))
	} else if vBool() {
		// a context-aware before-publish hook of the application's own, installed after the store
		opts = append(opts, WithBeforePublishContext(func(ctx context.Context, t reflect.Type, ev any) {}))
	}
	bus := New(opts...)
	if handlerViaSetter {
		bus.SetPersistenceErrorHandler(onErr)
	}
	if !withHandler && vBool() {
		bus.SetPersistenceErrorHandler(nil) // explicitly no handler
	}
	busRef = bus
	var gotA []int
	gotBad := 0
	Subscribe(bus, func(e evF) { gotA = append(gotA, e.N) })
	// a replay subscription's live handler is a handler like any other
	var gotR []int
	withReplaySub := vBool()
	if withReplaySub {
		vAssert(SubscribeWithReplay(context.Background(), bus, "c13-sub", func(e evF) { gotR = append(gotR, e.N) }) == nil, "subscribe-ok")
	}
	Subscribe(bus, func(e evBad) { gotBad++ })
	byValue := unencKind == 1
	gotSelfBad := 0
	Subscribe(bus, func(e evSelfBad) { gotSelfBad++ })

	// outcome per publish: 0 ok, 1 append rejected, 2 deadline, 3 unencodable, 4 acknowledged after the deadline passed
	outs := make([]int, K)
	wantFail := 0
	var okNs []int
	nBad, nUnenc := 0, 0
	for i := 0; i < K; i++ {
		hi := 4
		outs[i] = vInt(0, hi)
		if outs[i] == 2 && !withTimeout {
			// without a persistence timeout no deadline exists
			outs[i] = 1
		}
		if outs[i] == 4 && !withTimeout {
			outs[i] = 0
		}
		if outs[i] != 3 {
			fs.outcomes = append(fs.outcomes, outs[i])
		}
	}
	// the publisher's own context may carry a (much later) deadline of its own
	pubCtx := context.Background()
	if withTimeout && vBool() {
		fs.callerDeadline = time.Unix(4000000000, 0)
		var stop context.CancelFunc
		pubCtx, stop = context.WithDeadline(pubCtx, fs.callerDeadline)
		defer stop()
	}
	for i := 0; i < K; i++ {
		if outs[i] == 3 {
			if byValue {
				Publish(bus, evF{N: i + 1, F: math.NaN()})
			} else if unencKind == 2 {
				Publish(bus, evSelfBad{N: i + 1})
				nBad++
			} else {
				Publish(bus, evBad{})
				nBad++
			}
			nUnenc++
			wantFail++
			continue
		}
		PublishContext(bus, pubCtx, evF{N: i + 1, F: 1.5})
		if outs[i] == 0 || outs[i] == 4 {
			// 4: acknowledged by the store (although late) - a success
			okNs = append(okNs, i+1)
		} else {
			wantFail++
		}
	}

	// delivery is unaffected
	vAssert(len(gotA) == K-nBad && gotBad+gotSelfBad == nBad, "all-handlers-still-run")
	if withReplaySub {
		vAssert(len(gotR) == len(gotA), "all-handlers-still-run")
	}
	// exactly one append attempt per encodable publish, no retry
	vAssert(fs.calls == K-nUnenc, "one-append-attempt-each")
	for _, d := range fs.sawDeadline {
		vAssert(d == withTimeout, "persistence-timeout-reaches-the-store")
	}
	for _, c := range fs.nearestIsCallers {
		// with a persistence timeout the store works under that (tighter) deadline, not under the publisher's
		vAssert(!c, "persistence-timeout-reaches-the-store")
	}
	// reported exactly once each
	if withHandler {
		vAssert(len(reports) == wantFail, "each-failure-reported-once")
		ri := 0
		for i := 0; i < K; i++ {
			if outs[i] == 0 || outs[i] == 4 {
				continue
			}
			r := reports[ri]
			ri++
			vAssert(r.err != nil, "report-has-error")
			switch outs[i] {
			case 1:
				vAssert(errors.Is(r.err, errInjected), "report-wraps-append-error")
				vAssert(r.typ == reflect.TypeOf(evF{}), "report-has-type")
				e, ok := r.ev.(evF)
				vAssert(ok && e.N == i+1, "report-has-event")
			case 2:
				vAssert(errors.Is(r.err, context.DeadlineExceeded), "report-wraps-deadline")
				vAssert(r.typ == reflect.TypeOf(evF{}), "report-has-type")
			case 3:
				if byValue {
					vAssert(r.typ == reflect.TypeOf(evF{}), "report-has-type")
				} else if unencKind == 2 {
					vAssert(r.typ == reflect.TypeOf(evSelfBad{}), "report-has-type")
				} else {
					vAssert(r.typ == reflect.TypeOf(evBad{}), "report-has-type")
					_, ok := r.ev.(evBad)
					vAssert(ok, "report-has-event")
				}
			}
		}
	}
	// the log holds exactly the successful events, offsets increasing
	all, _, err := mem.Read(context.Background(), OffsetOldest, 0)
	var evs []*StoredEvent
	nDL := 0
	for _, se := range all {
		if se.Type == "eventbus.evB" {
			nDL++
		} else {
			evs = append(evs, se)
		}
	}
	vAssert(nDL == deadLetters, "dead-letters-stored")
	vAssert(err == nil && len(evs) == len(okNs), "log-has-only-successes")
	for i := range evs {
		var d evF
		vAssert(json.Unmarshal(evs[i].Data, &d) == nil && d.N == okNs[i], "log-content")
		vAssert(evs[i].Type == "eventbus.evF", "log-type")
		if i > 0 {
			vAssert(evs[i-1].Offset < evs[i].Offset, "log-offsets-increase")
		}
	}
	// a fresh replaying subscriber sees exactly the successful ones
	bus2 := New(WithStore(mem))
	var replayed []int
	rerr := SubscribeWithReplay(context.Background(), bus2, "sub", func(e evF) { replayed = append(replayed, e.N) })
	vAssert(rerr == nil && len(replayed) == len(okNs), "replay-sees-successes")
	for i := range replayed {
		vAssert(replayed[i] == okNs[i], "replay-order")
	}
	if wantFail == 0 {
		vCover("all-ok")
	} else {
		vCover("some-failed")
	}
}
