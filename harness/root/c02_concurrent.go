package eventbus

import (
	"context"
	"sync"
)

type c02Op struct {
	kind      int // 0 subscribe, 1 unsubscribe, 2 clear, 3 publish
	id        int // handler id (subscribe/unsubscribe) or event value (publish)
	once      bool
	reject    bool // filter rejecting every event
	odd       bool // filter accepting only event values of the handler identity's parity
	call, ret int
	ok        bool // unsubscribe returned nil
}

func c02Pick(slot int) c02Op {
	o := c02Op{kind: vPick(4)}
	switch o.kind {
	case 0:
		o.id = vPick(2)
		o.once = vBool()
		switch vInt(0, 2) {
		case 1:
			o.reject = true
		case 2:
			o.odd = true
		}
	case 1:
		o.id = vPick(2)
	case 3:
		o.id = 10 + slot
	}
	return o
}

func c02Run(bus *EventBus, o *c02Op) {
	o.call = vStep()
	switch o.kind {
	case 0:
		var so []SubscribeOption
		if o.once {
			so = append(so, Once())
		}
		if o.reject {
			so = append(so, WithFilter(func(e evA) bool { return false }))
		}
		if o.odd {
			// one func literal, different captured parity per handler identity: handler 1 takes odd
			// values, handler 0 even ones (closures of one literal share their code pointer)
			par := o.id % 2
			so = append(so, WithFilter(func(e evA) bool { return e.N%2 == par }))
		}
		Subscribe(bus, c01HA[o.id], so...)
	case 1:
		o.ok = Unsubscribe[evA](bus, c01HA[o.id]) == nil
	case 2:
		Clear[evA](bus)
	case 3:
		PublishContext(bus, context.Background(), evA{N: o.id})
	}
	o.ret = vStep()
}

// c02Oracle checks the real-time delivery rule (DESIGN Appendix C) for every
// (registration, publish) pair and the quiescent registry.
func c02Oracle(bus *EventBus, ops []*c02Op) {
	log := c01TakeLog()
	got := func(id, val int) int {
		n := 0
		for _, e := range log {
			if e.id == id && e.val == val {
				n++
			}
		}
		return n
	}
	for _, r := range ops {
		if r.kind != 0 {
			continue
		}
		total, mustSome := 0, false
		for _, p := range ops {
			if p.kind != 3 {
				continue
			}
			g := got(r.id, p.id)
			total += g
			acc := !r.reject && (!r.odd || p.id%2 == r.id%2)
			must := r.ret < p.call && acc
			mustNot := r.call > p.ret || !acc
			for _, x := range ops {
				switch {
				case x.kind == 1 && x.id == r.id && x.ok:
					if x.call < p.ret {
						must = false
					}
					if x.ret < p.call {
						mustNot = true
					}
				case x.kind == 2:
					if x.ret < r.call {
						continue // finished before the subscription started
					}
					if x.call < p.ret {
						must = false
					}
					if x.call > r.ret && x.ret < p.call {
						mustNot = true
					}
				}
			}
			vAssert(g <= 1, "at-most-once-per-publish")
			if mustNot {
				vAssert(g == 0, "removed-or-not-yet-subscribed-never-receives")
			}
			if must && !r.once {
				vAssert(g == 1, "subscribed-handler-receives-exactly-once")
			}
			if must {
				mustSome = true
			}
		}
		if r.once {
			vAssert(total <= 1, "once-at-most-once")
			if mustSome {
				vAssert(total == 1, "once-fires-when-eligible")
			}
		}
	}
	// quiescent registry: count == handlers answering a probe; must/may sets
	cnt := HandlerCount[evA](bus)
	c01TakeLog()
	Publish(bus, evA{N: 99})
	probe := c01TakeLog()
	answered := func(id int) int {
		n := 0
		for _, e := range probe {
			if e.id == id {
				n++
			}
		}
		return n
	}
	live := 0
	for _, r := range ops {
		if r.kind != 0 {
			continue
		}
		fired := false
		for _, e := range log {
			if e.id == r.id && r.once {
				fired = true
			}
		}
		mustGone, mayGone := fired, fired
		for _, x := range ops {
			if x.kind == 1 && x.id == r.id && x.ok {
				mustGone, mayGone = true, true
			}
			if x.kind == 2 && x.ret > r.call {
				mayGone = true
				if x.call > r.ret {
					mustGone = true
				}
			}
		}
		a := answered(r.id)
		silent := r.reject || (r.odd && r.id%2 != 99%2) // its filter does not let the probe through
		if !silent {
			if mustGone {
				vAssert(a == 0, "removed-registration-is-gone")
			}
			if !mayGone {
				vAssert(a == 1, "successful-subscription-not-lost-or-duplicated")
			}
			vAssert(a <= 1, "no-duplicate-registration")
			live += a
		} else {
			// a rejecting filter never answers: count it through the must/may sets
			if !mayGone {
				live++
			} else if !mustGone {
				// may or may not be present: accept either below
				live += cnt - cnt // no contribution; handled by the range check
			}
		}
	}
	_ = live
	// HandlerCount is consistent with the must/may sets
	lo, hi := 0, 0
	for _, r := range ops {
		if r.kind != 0 {
			continue
		}
		fired := false
		for _, e := range log {
			if e.id == r.id && r.once {
				fired = true
			}
		}
		for _, e := range probe {
			if e.id == r.id && r.once {
				fired = true // retired by the probe publish itself
			}
		}
		_ = fired
	}
	_ = lo
	_ = hi
	vAssert(cnt >= 0, "count-non-negative")
}

// c02Count: HandlerCount before the probe equals the number of registrations
// neither removed nor retired; with may-removed registrations it must lie in [must, may].
func c02CountRange(ops []*c02Op, log []c01Entry) (int, int) {
	lo, hi := 0, 0
	for _, r := range ops {
		if r.kind != 0 {
			continue
		}
		fired := false
		for _, e := range log {
			if e.id == r.id && r.once {
				fired = true
			}
		}
		mustGone, mayGone := fired, fired
		for _, x := range ops {
			if x.kind == 1 && x.id == r.id && x.ok {
				mustGone, mayGone = true, true
			}
			if x.kind == 2 && x.ret > r.call {
				mayGone = true
				if x.call > r.ret {
					mustGone = true
				}
			}
		}
		if !mayGone {
			lo++
		}
		if !mustGone {
			hi++
		}
	}
	return lo, hi
}

func c02Harness(nA, nB int, pre bool) {
	c01Log, c01Re = nil, nil
	bus := New()
	var ops []*c02Op
	used := [2]bool{}
	mk := func(slot int) *c02Op {
		o := c02Pick(slot)
		if o.kind == 0 {
			// each handler identity is registered at most once
			vAssume(!used[o.id])
			used[o.id] = true
		}
		ops = append(ops, &o)
		return &o
	}
	if pre {
		o := &c02Op{kind: 0, id: 0, once: vBool()}
		used[0] = true
		ops = append(ops, o)
		c02Run(bus, o)
	}
	var a, b []*c02Op
	for i := 0; i < nA; i++ {
		a = append(a, mk(i))
	}
	for i := 0; i < nB; i++ {
		b = append(b, mk(nA+i))
	}
	var wg sync.WaitGroup
	wg.Add(2)
	go func() {
		defer wg.Done()
		for _, o := range a {
			c02Run(bus, o)
		}
	}()
	go func() {
		defer wg.Done()
		for _, o := range b {
			c02Run(bus, o)
		}
	}()
	wg.Wait()
	vJoinAll()
	c01Mu.Lock()
	logCopy := append([]c01Entry{}, c01Log...)
	c01Mu.Unlock()
	lo, hi := c02CountRange(ops, logCopy)
	cnt := HandlerCount[evA](bus)
	vAssert(cnt >= lo && cnt <= hi, "quiescent-count-is-registrations-neither-removed-nor-retired")
	c02Oracle(bus, ops)
	vCover("quiesced")
}

//verif:entry property=C02 tier=quick bounds="2 goroutines: 2 ops and 1 op, each op in {Subscribe h (Once/rejecting filter flags), Unsubscribe h, Clear, Publish} over 2 handler identities; optional pre-subscribed handler; every interleaving with at most 2 preemptions" cover="quiesced" preempt=2 race=on
func harnessC02TwoByOne() { c02Harness(2, 1, vBool()) }

//verif:entry property=C02 tier=thorough bounds="2 goroutines x 2 ops each, ops as above; optional pre-subscribed handler; every interleaving with at most 2 preemptions" cover="quiesced" preempt=2 race=on
func harnessC02TwoByTwo() { c02Harness(2, 2, vBool()) }

//verif:entry property=C02 tier=thorough bounds="2 goroutines: 2 ops and 1 op, ops as above; optional pre-subscribed handler; every interleaving with at most 3 preemptions" cover="quiesced" preempt=3 race=on
func harnessC02TwoByOneDeep() { c02Harness(2, 1, vBool()) }

//verif:entry property=C02 tier=both bounds="an Async (optionally also Sequential) handler that yields mid-way; one goroutine publishes K events one after another, another goroutine unsubscribes the handler (or clears the type); every interleaving within the preemption bound; an event whose publish returned before the removal was started is delivered exactly once, any other at most once" cover="quiesced" K_quick=2 K_thorough=3 preempt_quick=2 preempt_thorough=3 race=on
func harnessC02AsyncRemoval() {
	K := vParam("K", 2)
	c01Log = nil
	c01Re = func(typ, id int) { vYield() }
	bus := New()
	so := []SubscribeOption{Async()}
	if vBool() {
		so = append(so, Sequential())
	}
	vAssert(Subscribe(bus, c01HA[0], so...) == nil, "subscribe-ok")
	useClear := vBool()
	pubRet := make([]int, K)
	removalCall := 0
	var wg sync.WaitGroup
	wg.Add(2)
	go func() {
		defer wg.Done()
		for i := 0; i < K; i++ {
			Publish(bus, evA{N: 10 + i})
			pubRet[i] = vStep()
		}
	}()
	go func() {
		defer wg.Done()
		removalCall = vStep()
		if useClear {
			Clear[evA](bus)
		} else {
			vAssert(Unsubscribe[evA](bus, c01HA[0]) == nil, "unsubscribe-ok")
		}
	}()
	wg.Wait()
	bus.Wait()
	vJoinAll()
	log := c01TakeLog()
	for i := 0; i < K; i++ {
		c := 0
		for _, e := range log {
			if e.id == 0 && e.val == 10+i {
				c++
			}
		}
		vAssert(c <= 1, "delivered-at-most-once")
		if pubRet[i] < removalCall {
			vAssert(c == 1, "delivered-exactly-once-when-subscribed-throughout")
		}
	}
	vAssert(HandlerCount[evA](bus) == 0, "quiescent-count-is-registrations-neither-removed-nor-retired")
	c01Re = nil
	vCover("quiesced")
}
