package eventbus

import (
	"context"
	"encoding/json"
)

type c17Doc struct {
	Trace []int `json:"trace"`
}

type c17Fail struct {
	typ   string
	trace []int
}

func c17Trace(d json.RawMessage) ([]int, bool) {
	var x c17Doc
	if err := json.Unmarshal(d, &x); err != nil {
		return nil, false
	}
	return x.Trace, true
}

func c17SameInts(a, b []int) bool {
	if len(a) != len(b) {
		return false
	}
	for i := range a {
		if a[i] != b[i] {
			return false
		}
	}
	return true
}

//verif:entry property=C17 tier=both bounds="acyclic upcaster graph over 4 names with ne<=E edges (several per source allowed, first registered wins), each raw upcaster appending its id to the document; one stored event per name; failure injected at any single upcaster or none" cover="chain-applied,failure-original" E_quick=3 E_thorough=4
func harnessC17Chain() {
	E := vParam("E", 3)
	names := []string{"A", "B", "C", "D"}
	ctx := context.Background()
	st := NewMemoryStore()
	var fails []c17Fail
	bus := New(WithStore(st), WithUpcastErrorHandler(func(t string, d json.RawMessage, err error) {
		tr, _ := c17Trace(d)
		fails = append(fails, c17Fail{t, tr})
	}))
	ne := vInt(0, E)
	failAt := vInt(-1, ne-1)
	type edge struct{ f, t int }
	var edges []edge
	for k := 0; k < ne; k++ {
		k := k
		f := vPick(3)
		t := f + 1 + vPick(3-f)
		to := names[t]
		fn := func(d json.RawMessage) (json.RawMessage, string, error) {
			if k == failAt {
				return nil, "", errInjected
			}
			tr, ok := c17Trace(d)
			if !ok {
				return nil, "", errCallback
			}
			out, err := json.Marshal(c17Doc{Trace: append(append([]int{}, tr...), k)})
			return out, to, err
		}
		vAssert(RegisterUpcastFunc(bus, names[f], to, fn) == nil, "register-ok")
		edges = append(edges, edge{f, t})
	}
	// one stored event of every name
	var offs []Offset
	for _, nm := range names {
		o, _ := st.Append(ctx, &Event{Type: nm, Data: json.RawMessage(`{"trace":[]}`), Timestamp: vTime("ts")})
		offs = append(offs, o)
	}
	stored, _, _ := st.Read(ctx, OffsetOldest, 0)
	i := 0
	wantFails := 0
	err := bus.ReplayWithUpcast(ctx, OffsetOldest, func(se *StoredEvent) error {
		// reference: follow first-registered upcasters
		cur := i
		var tr []int
		failed := false
		for {
			next := -1
			for k, e := range edges {
				if e.f == cur {
					next = k
					break
				}
			}
			if next < 0 {
				break
			}
			if next == failAt {
				failed = true
				// the error handler sees the type and data at the failing step
				vAssert(len(fails) == wantFails+1, "error-handler-called-once-for-failure")
				if len(fails) > wantFails {
					vAssert(fails[wantFails].typ == names[cur] && c17SameInts(fails[wantFails].trace, tr), "error-handler-gets-failing-step")
				}
				wantFails++
				break
			}
			tr = append(tr, next)
			cur = edges[next].t
		}
		vAssert(se.Offset == offs[i], "offset-unchanged")
		vAssert(se.Timestamp.Equal(stored[i].Timestamp), "timestamp-unchanged")
		got, ok := c17Trace(se.Data)
		vAssert(ok, "data-decodes")
		if failed {
			vAssert(se.Type == names[i] && len(got) == 0, "failure-shows-original-event")
			vCover("failure-original")
		} else {
			vAssert(se.Type == names[cur], "final-type")
			vAssert(c17SameInts(got, tr), "whole-chain-applied-in-order")
			if len(tr) == 0 {
				vAssert(string(se.Data) == string(stored[i].Data), "no-upcaster-untouched")
			} else {
				vCover("chain-applied")
			}
		}
		i++
		return nil
	})
	vAssert(err == nil && i == 4, "all-events-delivered")
	vAssert(len(fails) == wantFails, "no-extra-error-handler-calls")
}

//verif:entry property=C17 tier=both bounds="typed upcaster RegisterUpcast[evA,evV2] with f(a)=evV2{a.N+1,2}; published value with symbolic N" cover="typed"
func harnessC17Typed() {
	ctx := context.Background()
	st := NewMemoryStore()
	bus := New(WithStore(st))
	n := vInt(-100, 100)
	Publish(bus, evA{N: n, S: vStr("s")})
	vAssert(RegisterUpcast(bus, func(a evA) evV2 { return evV2{N: a.N + 1, V: 2} }) == nil, "register-ok")
	seen := 0
	err := bus.ReplayWithUpcast(ctx, OffsetOldest, func(se *StoredEvent) error {
		seen++
		vAssert(se.Type == "eventbus.evV2", "typed-final-type")
		var v evV2
		vAssert(json.Unmarshal(se.Data, &v) == nil && v.N == n+1 && v.V == 2, "typed-json-of-f-of-decoded")
		return nil
	})
	vAssert(err == nil && seen == 1, "delivered")
	vCover("typed")
}

type evV3 struct {
	N int    `json:"n"`
	S string `json:"s,omitempty"`
}

//verif:entry property=C17 tier=both bounds="typed upcaster evA->evV3 copying both fields, over two stored events the second of which omits the optional field; then the upcasters are cleared and the log is replayed again" cover="typed-two"
func harnessC17TypedTwoEvents() {
	ctx := context.Background()
	st := NewMemoryStore()
	bus := New(WithStore(st))
	s1 := vStr("s1")
	vAssume(s1 != "")
	n1, n2 := vInt(-9, 9), vInt(-9, 9)
	Publish(bus, evA{N: n1, S: s1})
	Publish(bus, evA{N: n2})
	vAssert(RegisterUpcast(bus, func(a evA) evV3 { return evV3{N: a.N, S: a.S} }) == nil, "register-ok")
	i := 0
	vAssert(bus.ReplayWithUpcast(ctx, OffsetOldest, func(se *StoredEvent) error {
		var v evV3
		vAssert(se.Type == "eventbus.evV3" && json.Unmarshal(se.Data, &v) == nil, "typed-final-type")
		if i == 0 {
			vAssert(v.N == n1 && v.S == s1, "typed-json-of-f-of-decoded")
		} else {
			vAssert(v.N == n2 && v.S == "", "typed-upcast-of-each-event-is-independent")
		}
		i++
		return nil
	}) == nil && i == 2, "delivered")
	// the store still holds the original events
	bus.ClearUpcasts()
	j := 0
	vAssert(bus.ReplayWithUpcast(ctx, OffsetOldest, func(se *StoredEvent) error {
		var a evA
		vAssert(se.Type == "eventbus.evA" && json.Unmarshal(se.Data, &a) == nil, "upcasting-replay-does-not-change-the-log")
		j++
		return nil
	}) == nil && j == 2, "delivered")
	vCover("typed-two")
}
