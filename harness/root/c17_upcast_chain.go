package eventbus

import (
	"context"
	"encoding/json"
)

type c17Doc struct {
	Trace []int `json:"trace"`
}

type c17Fail struct {
	typ   string
	trace []int
}

func c17Trace(d json.RawMessage) ([]int, bool) {
	var x c17Doc
	if err := json.Unmarshal(d, &x); err != nil {
		return nil, false
	}
	return x.Trace, true
}

func c17SameInts(a, b []int) bool {
	if len(a) != len(b) {
		return false
	}
	for i := range a {
		if a[i] != b[i] {
			return false
		}
	}
	return true
}

//verif:entry property=C17 tier=both bounds="acyclic upcaster graph over 4 names with ne<=E edges (several per source allowed, first registered wins), each raw upcaster appending its id to the document; one stored event per name; failure injected at any single upcaster or none; error handler given by option or by setter" cover="chain-applied,failure-original" E_quick=3 E_thorough=4
func harnessC17Chain() { c17Chain(vParam("E", 3), false) }

//verif:entry property=C17 tier=both bounds="as above with at most 2 edges, and: the error handler given by option, by setter, explicitly nil, or installed and removed again; optionally one refused (cycle-closing) registration attempted before the replay; optionally two ClearUpcastsForType calls for types without upcasters" cover="chain-applied,failure-original"
func harnessC17ChainHandlerModes() { c17Chain(2, true) }

func c17Chain(E int, extra bool) {
	names := []string{"A", "B", "C", "D"}
	ctx := context.Background()
	st := NewMemoryStore()
	var fails []c17Fail
	onUpErr := func(t string, d json.RawMessage, err error) {
		tr, _ := c17Trace(d)
		fails = append(fails, c17Fail{t, tr})
	}
	var bus *EventBus
	hmode := vPick(2)
	if extra {
		hmode = vPick(4)
	}
	haveHandler := hmode <= 1
	switch hmode {
	case 0:
		bus = New(WithStore(st), WithUpcastErrorHandler(onUpErr))
	case 1:
		bus = New(WithStore(st))
		bus.SetUpcastErrorHandler(onUpErr)
	case 2:
		// explicitly no handler
		bus = New(WithStore(st), WithUpcastErrorHandler(nil))
	case 3:
		// a handler that was installed and taken away again
		bus = New(WithStore(st), WithUpcastErrorHandler(onUpErr))
		bus.SetUpcastErrorHandler(nil)
	}
	ne := vInt(0, E)
	failAt := vInt(-1, ne-1)
	retOther := -1
	if !extra {
		retOther = vInt(-1, ne-1)
	}
	// retOther: this upcaster returns a type that may differ from its registered target
	type edge struct{ f, t int } // t: the type the upcaster RETURNS (what the chain continues from)
	var edges []edge
	var declTo []string // source and declared target of every registration, in order
	for k := 0; k < ne; k++ {
		k := k
		f := vPick(3)
		t := f + 1 + vPick(3-f)
		declared := names[t]
		if k == retOther {
			// a raw upcaster may return another (later) type than the one it was registered for
			t = f + 1 + vPick(3-f)
		}
		to := names[t]
		fn := func(d json.RawMessage) (json.RawMessage, string, error) {
			if k == failAt {
				return nil, "", errInjected
			}
			tr, ok := c17Trace(d)
			if !ok {
				return nil, "", errCallback
			}
			out, err := json.Marshal(c17Doc{Trace: append(append([]int{}, tr...), k)})
			return out, to, err
		}
		vAssert(RegisterUpcastFunc(bus, names[f], declared, fn) == nil, "register-ok")
		edges = append(edges, edge{f, t})
		declTo = append(declTo, names[f], declared)
	}
	if extra && hmode == 0 && vBool() {
		// clearing types that have no upcaster of their own (a chain's final type, a name nobody registered)
		// leaves the registered chains alone
		bus.ClearUpcastsForType("D")
		bus.ClearUpcastsForType("legacy.type")
	}
	if extra && ne > 0 && vBool() {
		// a registration that would close a cycle is attempted and refused; what was registered stays as it was
		k := vPick(E)
		vAssume(2*k+1 < len(declTo))
		vAssert(RegisterUpcastFunc(bus, declTo[2*k+1], declTo[2*k], func(d json.RawMessage) (json.RawMessage, string, error) {
			return d, declTo[2*k], nil
		}) != nil, "cycle-closing-registration-refused")
	}
	// one stored event of every name
	var offs []Offset
	for _, nm := range names {
		o, _ := st.Append(ctx, &Event{Type: nm, Data: json.RawMessage(`{"trace":[]}`), Timestamp: vTime("ts")})
		offs = append(offs, o)
	}
	stored, _, _ := st.Read(ctx, OffsetOldest, 0)
	i := 0
	wantFails := 0
	err := bus.ReplayWithUpcast(ctx, OffsetOldest, func(se *StoredEvent) error {
		// reference: follow first-registered upcasters
		cur := i
		var tr []int
		failed := false
		for {
			next := -1
			for k, e := range edges {
				if e.f == cur {
					next = k
					break
				}
			}
			if next < 0 {
				break
			}
			if next == failAt {
				failed = true
				// the error handler sees the type and data at the failing step
				if !haveHandler {
					vAssert(len(fails) == 0, "removed-error-handler-not-called")
					break
				}
				vAssert(len(fails) == wantFails+1, "error-handler-called-once-for-failure")
				if len(fails) > wantFails {
					vAssert(fails[wantFails].typ == names[cur] && c17SameInts(fails[wantFails].trace, tr), "error-handler-gets-failing-step")
				}
				wantFails++
				break
			}
			tr = append(tr, next)
			cur = edges[next].t
		}
		vAssert(se.Offset == offs[i], "offset-unchanged")
		vAssert(se.Timestamp.Equal(stored[i].Timestamp), "timestamp-unchanged")
		got, ok := c17Trace(se.Data)
		vAssert(ok, "data-decodes")
		if failed {
			vAssert(se.Type == names[i] && len(got) == 0, "failure-shows-original-event")
			vCover("failure-original")
		} else {
			vAssert(se.Type == names[cur], "final-type")
			vAssert(c17SameInts(got, tr), "whole-chain-applied-in-order")
			if len(tr) == 0 {
				vAssert(string(se.Data) == string(stored[i].Data), "no-upcaster-untouched")
			} else {
				vCover("chain-applied")
			}
		}
		i++
		return nil
	})
	vAssert(err == nil && i == 4, "all-events-delivered")
	vAssert(len(fails) == wantFails, "no-extra-error-handler-calls")
}

//verif:entry property=C17 tier=both bounds="typed upcaster RegisterUpcast[evA,evV2] with f(a)=evV2{a.N+1,2}; published value with symbolic N" cover="typed"
func harnessC17Typed() {
	ctx := context.Background()
	st := NewMemoryStore()
	bus := New(WithStore(st))
	n := vInt(-100, 100)
	Publish(bus, evA{N: n, S: vStr("s")})
	vAssert(RegisterUpcast(bus, func(a evA) evV2 { return evV2{N: a.N + 1, V: 2} }) == nil, "register-ok")
	seen := 0
	err := bus.ReplayWithUpcast(ctx, OffsetOldest, func(se *StoredEvent) error {
		seen++
		vAssert(se.Type == "eventbus.evV2", "typed-final-type")
		var v evV2
		vAssert(json.Unmarshal(se.Data, &v) == nil && v.N == n+1 && v.V == 2, "typed-json-of-f-of-decoded")
		return nil
	})
	vAssert(err == nil && seen == 1, "delivered")
	vCover("typed")
}

type evV3 struct {
	N int    `json:"n"`
	S string `json:"s,omitempty"`
}

//verif:entry property=C17 tier=both bounds="typed upcaster evA->evV3 copying both fields, over two stored events the second of which omits the optional field; then the upcasters are cleared and the log is replayed again" cover="typed-two"
func harnessC17TypedTwoEvents() {
	ctx := context.Background()
	st := NewMemoryStore()
	bus := New(WithStore(st))
	s1 := vStr("s1")
	vAssume(s1 != "")
	n1, n2 := vInt(-9, 9), vInt(-9, 9)
	Publish(bus, evA{N: n1, S: s1})
	Publish(bus, evA{N: n2})
	vAssert(RegisterUpcast(bus, func(a evA) evV3 { return evV3{N: a.N, S: a.S} }) == nil, "register-ok")
	i := 0
	vAssert(bus.ReplayWithUpcast(ctx, OffsetOldest, func(se *StoredEvent) error {
		var v evV3
		vAssert(se.Type == "eventbus.evV3" && json.Unmarshal(se.Data, &v) == nil, "typed-final-type")
		if i == 0 {
			vAssert(v.N == n1 && v.S == s1, "typed-json-of-f-of-decoded")
		} else {
			vAssert(v.N == n2 && v.S == "", "typed-upcast-of-each-event-is-independent")
		}
		i++
		return nil
	}) == nil && i == 2, "delivered")
	// the store still holds the original events
	bus.ClearUpcasts()
	j := 0
	vAssert(bus.ReplayWithUpcast(ctx, OffsetOldest, func(se *StoredEvent) error {
		var a evA
		vAssert(se.Type == "eventbus.evA" && json.Unmarshal(se.Data, &a) == nil, "upcasting-replay-does-not-change-the-log")
		j++
		return nil
	}) == nil && j == 2, "delivered")
	vCover("typed-two")
}

//verif:entry property=C17 tier=both bounds="upcasting inside SubscribeWithReplay: K stored evA events, one raw upcaster evA->evV2 (n+1, v=2) that fails for a chosen event or never; the subscription is for evA or for evV2; every stored event reaches the subscription of its FINAL type (upcast, or original on failure) and no other; error handler once per failure" cover="subscribed" K_quick=2 K_thorough=3
func harnessC17SubscribeWithReplay() {
	K := vParam("K", 2)
	ctx := context.Background()
	st := NewMemoryStore()
	writer := New(WithStore(st))
	ns := make([]int, K)
	for i := 0; i < K; i++ {
		ns[i] = vInt(-50, 50)
		Publish(writer, evA{N: ns[i]})
	}
	upErrs := 0
	bus := New(WithStore(st), WithUpcastErrorHandler(func(t string, d json.RawMessage, err error) {
		vAssert(t == "eventbus.evA", "error-handler-gets-failing-step")
		upErrs++
	}))
	failAt := vInt(-1, K-1)
	calls := 0
	vAssert(RegisterUpcastFunc(bus, "eventbus.evA", "eventbus.evV2", func(d json.RawMessage) (json.RawMessage, string, error) {
		i := calls
		calls++
		if i == failAt {
			return nil, "", errInjected
		}
		var a evA
		if err := json.Unmarshal(d, &a); err != nil {
			return nil, "", err
		}
		out, err := json.Marshal(evV2{N: a.N + 1, V: 2})
		return out, "eventbus.evV2", err
	}) == nil, "register-ok")
	var gotA []int
	var gotV2 []evV2
	var err error
	asOld := vBool()
	if asOld {
		err = SubscribeWithReplay(ctx, bus, "sub", func(e evA) { gotA = append(gotA, e.N) })
	} else {
		err = SubscribeWithReplay(ctx, bus, "sub", func(e evV2) { gotV2 = append(gotV2, e) })
	}
	vAssert(err == nil, "subscribe-ok")
	// reference: event i ends as evV2{n+1,2}, or stays evA{n} when its upcast failed
	var wantA []int
	var wantV2 []evV2
	for i := 0; i < K; i++ {
		if i == failAt {
			wantA = append(wantA, ns[i])
		} else {
			wantV2 = append(wantV2, evV2{N: ns[i] + 1, V: 2})
		}
	}
	if asOld {
		vAssert(len(gotA) == len(wantA), "failure-shows-original-event")
		for i := range gotA {
			if i < len(wantA) {
				vAssert(gotA[i] == wantA[i], "failure-shows-original-event")
			}
		}
	} else {
		vAssert(len(gotV2) == len(wantV2), "whole-chain-applied-in-order")
		for i := range gotV2 {
			if i < len(wantV2) {
				vAssert(gotV2[i] == wantV2[i], "whole-chain-applied-in-order")
			}
		}
	}
	want := 0
	if failAt >= 0 {
		want = 1
	}
	vAssert(upErrs == want, "error-handler-called-once-for-failure")
	vCover("subscribed")
}

type evLoose struct {
	N int `json:"n"`
	X any `json:"x"`
}

//verif:entry property=C17 tier=both bounds="typed upcaster over a source type with an interface-typed field holding a number, a string or nothing: f must see exactly what json.Unmarshal into the source type yields (numbers as float64)" cover="typed-loose"
func harnessC17TypedLooseField() {
	ctx := context.Background()
	st := NewMemoryStore()
	bus := New(WithStore(st))
	n := vInt(-100, 100)
	kind := vPick(3)
	var x any
	switch kind {
	case 0:
		x = vInt(0, 9)
	case 1:
		x = "seven"
	}
	Publish(bus, evLoose{N: n, X: x})
	vAssert(RegisterUpcast(bus, func(a evLoose) evV2 {
		v := -1
		switch t := a.X.(type) {
		case float64:
			v = int(t)
		case string:
			v = -2
		case nil:
			v = -3
		}
		return evV2{N: a.N, V: v}
	}) == nil, "register-ok")
	seen := 0
	err := bus.ReplayWithUpcast(ctx, OffsetOldest, func(se *StoredEvent) error {
		seen++
		var v evV2
		vAssert(se.Type == "eventbus.evV2" && json.Unmarshal(se.Data, &v) == nil, "typed-final-type")
		want := -3
		switch kind {
		case 0:
			want = x.(int)
		case 1:
			want = -2
		}
		vAssert(v.N == n && v.V == want, "typed-json-of-f-of-decoded")
		return nil
	})
	vAssert(err == nil && seen == 1, "delivered")
	vCover("typed-loose")
}

//verif:entry property=C17 tier=both bounds="typed upcaster evA->evV2 over two stored evA events one of which carries a payload that does not decode into evA (a string where a number belongs); upcast error handler installed or not; the undecodable one reaches the callback as the original event and is reported exactly once" cover="typed-decode-failure"
func harnessC17TypedDecodeFailure() {
	ctx := context.Background()
	st := NewMemoryStore()
	badFirst := vBool()
	payloads := []string{`{"n":7}`, `{"n":"seven"}`}
	if badFirst {
		payloads[0], payloads[1] = payloads[1], payloads[0]
	}
	for _, p := range payloads {
		_, err := st.Append(ctx, &Event{Type: "eventbus.evA", Data: json.RawMessage(p), Timestamp: vTime("ts")})
		vAssert(err == nil, "append-ok")
	}
	reports := 0
	var opts []Option
	opts = append(opts, WithStore(st))
	withHandler := vBool()
	if withHandler {
		opts = append(opts, WithUpcastErrorHandler(func(t string, d json.RawMessage, err error) {
			vAssert(t == "eventbus.evA" && err != nil, "error-handler-gets-failing-step")
			reports++
		}))
	}
	bus := New(opts...)
	vAssert(RegisterUpcast(bus, func(a evA) evV2 { return evV2{N: a.N + 1, V: 2} }) == nil, "register-ok")
	if vBool() {
		// the upcasters are cleared and registered again: the error handler is configuration, not an upcaster
		bus.ClearUpcasts()
		vAssert(RegisterUpcast(bus, func(a evA) evV2 { return evV2{N: a.N + 1, V: 2} }) == nil, "register-ok")
	}
	i := 0
	err := bus.ReplayWithUpcast(ctx, OffsetOldest, func(se *StoredEvent) error {
		bad := (i == 0) == badFirst
		if bad {
			vAssert(se.Type == "eventbus.evA", "failure-shows-original-event")
		} else {
			var v evV2
			vAssert(se.Type == "eventbus.evV2" && json.Unmarshal(se.Data, &v) == nil && v.N == 8 && v.V == 2, "typed-json-of-f-of-decoded")
		}
		i++
		return nil
	})
	vAssert(err == nil && i == 2, "all-events-delivered")
	if withHandler {
		vAssert(reports == 1, "error-handler-called-once-for-failure")
	}
	vCover("typed-decode-failure")
}
