package eventbus

import (
	"encoding/json"
	"strconv"
	"sync"
)

type c16Edge struct{ f, t string }

// c16Reaches: is there a path a ->* b over edges (a == b counts)?
func c16Reaches(edges []c16Edge, a, b string) bool {
	if a == b {
		return true
	}
	seen := make([]bool, len(edges))
	frontier := []string{a}
	for len(frontier) > 0 {
		cur := frontier[len(frontier)-1]
		frontier = frontier[:len(frontier)-1]
		for i, e := range edges {
			if seen[i] || e.f != cur {
				continue
			}
			seen[i] = true
			if e.t == b {
				return true
			}
			frontier = append(frontier, e.t)
		}
	}
	return false
}

func c16Count(r *upcastRegistry) int {
	n := 0
	for _, l := range r.upcasters {
		n += len(l)
	}
	return n
}

func c16Dummy(d json.RawMessage) (json.RawMessage, string, error) { return d, "", nil }

// c16Prestate writes ne arbitrary edges into the registry, assumed acyclic
// through a rank function (every acyclic edge multiset is reachable by
// registering its edges in rank order, so the invariant is exact).
func c16Prestate(r *upcastRegistry, ne int) []c16Edge {
	var edges []c16Edge
	for i := 0; i < ne; i++ {
		f, t := vStr("from"), vStr("to")
		vAssume(f != "" && t != "")
		vAssume(vRank(f) < vRank(t))
		r.upcasters[f] = append(r.upcasters[f], Upcaster{FromType: f, ToType: t, Upcast: c16Dummy})
		edges = append(edges, c16Edge{f, t})
	}
	return edges
}

//verif:entry property=C16 tier=both bounds="inductive step: arbitrary acyclic registry of ne<=E edges over arbitrary (SMT string) type names, one RegisterUpcastFunc with arbitrary from/to (incl. empty, equal) and nil/non-nil func" cover="accepted,rejected-cycle,rejected-arg" E_quick=2 E_thorough=3
func harnessC16RegisterStep() {
	E := vParam("E", 2)
	bus := New()
	r := bus.upcastRegistry
	ne := vInt(0, E)
	edges := c16Prestate(r, ne)
	from, to := vStr("newfrom"), vStr("newto")
	nilFn := vBool()
	var fn UpcastFunc = c16Dummy
	if nilFn {
		fn = nil
	}
	before := c16Count(r)
	err := RegisterUpcastFunc(bus, from, to, fn)
	badArg := from == "" || to == "" || from == to || nilFn
	cyc := c16Reaches(edges, to, from)
	vAssert((err != nil) == (badArg || cyc), "rejected-iff-invalid-or-cycle")
	if err != nil {
		vAssert(c16Count(r) == before, "rejected-leaves-registry-unchanged")
		if badArg {
			vCover("rejected-arg")
		} else {
			vCover("rejected-cycle")
		}
		return
	}
	vAssert(c16Count(r) == before+1, "accepted-adds-one")
	l := r.upcasters[from]
	vAssert(len(l) > 0 && l[len(l)-1].FromType == from && l[len(l)-1].ToType == to, "accepted-appended-last")
	// the graph is still acyclic: the new source is not reachable from the new target
	all := append(edges, c16Edge{from, to})
	for _, e := range all {
		vAssert(!c16Reaches(all, e.t, e.f), "post-acyclic")
	}
	vCover("accepted")
}

//verif:entry property=C16 tier=both bounds="every sequence of S calls out of {RegisterUpcastFunc(a,b), ClearUpcasts, ClearUpcastsForType(a)} over 3 names from the empty registry" cover="seq-done" S_quick=3 S_thorough=4
func harnessC16Sequences() {
	S := vParam("S", 3)
	names := []string{"A", "B", "C"}
	bus := New()
	var edges []c16Edge
	for s := 0; s < S; s++ {
		switch vPick(3) {
		case 0:
			f, t := names[vPick(3)], names[vPick(3)]
			err := RegisterUpcastFunc(bus, f, t, c16Dummy)
			want := f == t || c16Reaches(edges, t, f)
			vAssert((err != nil) == want, "seq-rejected-iff-cycle")
			if err == nil {
				edges = append(edges, c16Edge{f, t})
			}
		case 1:
			bus.ClearUpcasts()
			edges = nil
		case 2:
			x := names[vPick(3)]
			bus.ClearUpcastsForType(x)
			var keep []c16Edge
			for _, e := range edges {
				if e.f != x {
					keep = append(keep, e)
				}
			}
			edges = keep
		}
		vAssert(c16Count(bus.upcastRegistry) == len(edges), "seq-registry-matches-model")
		for _, e := range edges {
			vAssert(!c16Reaches(edges, e.t, e.f), "seq-acyclic")
		}
	}
	vCover("seq-done")
}

//verif:entry property=C16 tier=both bounds="every sequence of S calls out of {RegisterUpcastFunc(f,t), ClearUpcastsForType(x), ClearUpcasts} through the public API from the empty registry where every name is an arbitrary non-empty SMT string (so names may contain each other, separators, prefixes of each other); S_quick=3, S_thorough=4" cover="symseq-done,symseq-rejected-cycle" S_quick=3 S_thorough=4
func harnessC16SequencesSym() {
	S := vParam("S", 3)
	bus := New()
	var edges []c16Edge
	for s := 0; s < S; s++ {
		k := 0
		if s > 0 {
			k = vPick(3)
		}
		switch k {
		case 0:
			f, t := vStr("from"), vStr("to")
			vAssume(f != "" && t != "")
			err := RegisterUpcastFunc(bus, f, t, c16Dummy)
			want := f == t || c16Reaches(edges, t, f)
			vAssert((err != nil) == want, "symseq-rejected-iff-cycle")
			if err == nil {
				edges = append(edges, c16Edge{f, t})
			} else if f != t {
				vCover("symseq-rejected-cycle")
			}
		case 1:
			x := vStr("cleared")
			bus.ClearUpcastsForType(x)
			var keep []c16Edge
			for _, e := range edges {
				if e.f != x {
					keep = append(keep, e)
				}
			}
			edges = keep
		case 2:
			bus.ClearUpcasts()
			edges = nil
		}
		vAssert(c16Count(bus.upcastRegistry) == len(edges), "symseq-registry-matches-model")
	}
	for _, e := range edges {
		vAssert(!c16Reaches(edges, e.t, e.f), "symseq-acyclic")
	}
	vCover("symseq-done")
}

//verif:entry property=C16 tier=both bounds="arbitrary acyclic registry of ne<=E edges (E as above) whose raw upcasters each return an arbitrary type name (declared target, own source, any other); apply() on one event of arbitrary type must return within 20000 interpreted instructions" cover="applied" forbid=panic,deadlock,race,budget budget=20000 E_quick=2 E_thorough=3
func harnessC16ApplyTerminates() {
	E := vParam("E", 2)
	bus := New()
	r := bus.upcastRegistry
	ne := vInt(0, E)
	var edges []c16Edge
	for i := 0; i < ne; i++ {
		f, t := vStr("from"), vStr("to")
		vAssume(f != "" && t != "" && f != t)
		vAssume(vRank(f) < vRank(t))
		ret := vStr("returned")
		fn := func(d json.RawMessage) (json.RawMessage, string, error) { return d, ret, nil }
		// registered through the public API: every accepted registry is reachable
		if RegisterUpcastFunc(bus, f, t, fn) == nil {
			edges = append(edges, c16Edge{f, t})
		}
	}
	start := vStr("stored-type")
	_, _, _ = r.apply(json.RawMessage(`{}`), start)
	// whatever path the upcast took, the registry is usable afterwards
	bus.ClearUpcastsForType("no-such-type")
	_ = RegisterUpcastFunc(bus, "verif.after", "verif.after.v2", c16Dummy)
	_, _, _ = r.apply(json.RawMessage(`{}`), start)
	vCover("applied")
}

//verif:entry property=C16 tier=both bounds="two goroutines each registering one edge over 3 names concurrently on a registry with one optional prior edge; every interleaving within the preemption bound; the resulting graph must be acyclic and hold exactly the accepted edges" cover="raced" preempt_quick=2 preempt_thorough=3 race=on
func harnessC16ConcurrentRegister() {
	names := []string{"A", "B", "C"}
	bus := New()
	var edges []c16Edge
	if vBool() {
		f, t := names[vPick(3)], names[vPick(3)]
		if RegisterUpcastFunc(bus, f, t, c16Dummy) == nil {
			edges = append(edges, c16Edge{f, t})
		}
	}
	f1, t1 := names[vPick(3)], names[vPick(3)]
	f2, t2 := names[vPick(3)], names[vPick(3)]
	var e1, e2 error
	var wg sync.WaitGroup
	wg.Add(2)
	go func() {
		defer wg.Done()
		e1 = RegisterUpcastFunc(bus, f1, t1, c16Dummy)
	}()
	go func() {
		defer wg.Done()
		e2 = RegisterUpcastFunc(bus, f2, t2, c16Dummy)
	}()
	wg.Wait()
	if e1 == nil {
		edges = append(edges, c16Edge{f1, t1})
	}
	if e2 == nil {
		edges = append(edges, c16Edge{f2, t2})
	}
	vAssert(c16Count(bus.upcastRegistry) == len(edges), "registry-holds-exactly-the-accepted-edges")
	for _, e := range edges {
		vAssert(!c16Reaches(edges, e.t, e.f), "racing-registrations-never-create-a-cycle")
	}
	// a registration that was valid on its own and does not conflict with the other one is accepted
	if f1 != t1 && !c16Reaches(edges, t1, f1) {
		vAssert(e1 == nil || c16Reaches(append(edges, c16Edge{f1, t1}), t1, f1), "valid-registration-accepted")
	}
	vCover("raced")
}

//verif:entry property=C16 tier=both bounds="upcasting a stored event along the chain A->B->C while another goroutine registers one more edge over 4 names (or clears the registry); every interleaving within the preemption bound; the upcast terminates and ends at a type reachable from A, the registry stays acyclic" cover="applied-while-registering" preempt_quick=2 preempt_thorough=3 race=on
func harnessC16ApplyWhileRegister() {
	names := []string{"A", "B", "C", "D"}
	bus := New()
	r := bus.upcastRegistry
	hop := func(to string) UpcastFunc {
		return func(d json.RawMessage) (json.RawMessage, string, error) { return d, to, nil }
	}
	vAssert(RegisterUpcastFunc(bus, "A", "B", hop("B")) == nil, "register-ok")
	vAssert(RegisterUpcastFunc(bus, "B", "C", hop("C")) == nil, "register-ok")
	edges := []c16Edge{{"A", "B"}, {"B", "C"}}
	f, t := names[vPick(4)], names[vPick(4)]
	clear := vBool()
	var endType string
	var regErr error
	var wg sync.WaitGroup
	wg.Add(2)
	go func() {
		defer wg.Done()
		_, endType, _ = r.apply(json.RawMessage(`{}`), "A")
	}()
	go func() {
		defer wg.Done()
		if clear {
			bus.ClearUpcasts()
		} else {
			regErr = RegisterUpcastFunc(bus, f, t, hop(t))
		}
	}()
	wg.Wait()
	if !clear && regErr == nil {
		edges = append(edges, c16Edge{f, t})
	}
	for _, e := range edges {
		vAssert(!c16Reaches(edges, e.t, e.f), "racing-registrations-never-create-a-cycle")
	}
	vAssert(endType == "A" || c16Reaches(edges, "A", endType), "upcast-ends-at-a-reachable-type")
	vCover("applied-while-registering")
}

//verif:entry property=C16 tier=both bounds="a long chain: L upcasters n0->n1->...->nL registered in order (L_quick=40, L_thorough=80), then one more registration from a symbolic position i to a symbolic position j: rejected exactly when it would close a cycle (j <= i), accepted otherwise; then upcasting n0 runs through the whole chain" cover="long-chain" L_quick=40 L_thorough=80
func harnessC16LongChain() {
	L := vParam("L", 40)
	bus := New()
	name := func(i int) string { return "n" + strconv.Itoa(i) }
	hop := func(to string) UpcastFunc {
		return func(d json.RawMessage) (json.RawMessage, string, error) { return d, to, nil }
	}
	for i := 0; i < L; i++ {
		vAssert(RegisterUpcastFunc(bus, name(i), name(i+1), hop(name(i+1))) == nil, "register-ok")
	}
	i, j := vInt(0, L), vInt(0, L)
	err := RegisterUpcastFunc(bus, name(i), name(j), hop(name(j)))
	vAssert((err != nil) == (j <= i), "rejected-iff-invalid-or-cycle")
	_, end, aerr := bus.upcastRegistry.apply(json.RawMessage(`{}`), "n0")
	vAssert(aerr == nil && end == name(L), "whole-chain-applied")
	vCover("long-chain")
}

//verif:entry property=C16 tier=both bounds="bus options: every list of K WithUpcast(from,to,fn) options over 3 names (fn possibly nil) given to New (K_quick=3, K_thorough=4); the resulting registry must be acyclic and equal to what RegisterUpcastFunc would have accepted in that order" cover="built" K_quick=3 K_thorough=4
func harnessC16WithUpcastOptions() {
	K := vParam("K", 3)
	names := []string{"A", "B", "C"}
	var opts []Option
	var edges []c16Edge
	for i := 0; i < K; i++ {
		f, t := names[vPick(3)], names[vPick(3)]
		if vBool() {
			// a nil function is refused here as everywhere else
			opts = append(opts, WithUpcast(f, t, nil))
			continue
		}
		opts = append(opts, WithUpcast(f, t, c16Dummy))
		if f != t && !c16Reaches(edges, t, f) {
			edges = append(edges, c16Edge{f, t})
		}
	}
	bus := New(opts...)
	vAssert(c16Count(bus.upcastRegistry) == len(edges), "options-register-like-RegisterUpcastFunc")
	var got []c16Edge
	for _, l := range bus.upcastRegistry.upcasters {
		for _, u := range l {
			got = append(got, c16Edge{u.FromType, u.ToType})
		}
	}
	for _, e := range got {
		vAssert(!c16Reaches(got, e.t, e.f), "registry-built-from-options-is-acyclic")
	}
	for _, l := range bus.upcastRegistry.upcasters {
		for _, u := range l {
			vAssert(u.Upcast != nil, "nil-function-never-registered")
		}
	}
	vCover("built")
}

//verif:entry property=C16 tier=both bounds="R registrations one after another through the public API from the empty registry, every name an arbitrary non-empty SMT string (the solver chooses which names coincide, i.e. the shape of the graph and the order in which its edges arrive); each is rejected exactly when it is a self-loop or closes a cycle; R_quick=5, R_thorough=6" cover="regseq-done,regseq-rejected-cycle" R_quick=5 R_thorough=6
func harnessC16RegisterOrders() {
	R := vParam("R", 5)
	bus := New()
	var edges []c16Edge
	for s := 0; s < R; s++ {
		f, t := vStr("from"), vStr("to")
		vAssume(f != "" && t != "")
		err := RegisterUpcastFunc(bus, f, t, c16Dummy)
		want := f == t || c16Reaches(edges, t, f)
		vAssert((err != nil) == want, "regseq-rejected-iff-cycle")
		if err == nil {
			edges = append(edges, c16Edge{f, t})
		} else if f != t {
			vCover("regseq-rejected-cycle")
		}
	}
	vAssert(c16Count(bus.upcastRegistry) == len(edges), "regseq-registry-matches-model")
	vCover("regseq-done")
}

//verif:entry property=C16 tier=both bounds="typed registration: RegisterUpcast between two Go types whose event type names (TypeNamer) are arbitrary SMT strings - possibly empty, possibly equal to each other - on a registry holding one optional raw edge with arbitrary names; rejected exactly when a name is empty, the names are equal or the target reaches the source" cover="typed-accepted,typed-rejected"
func harnessC16TypedRegister() {
	bus := New()
	evNamedName, evNamedPName = vStr("source-name"), vStr("target-name")
	var edges []c16Edge
	if vBool() {
		f, t := vStr("from"), vStr("to")
		vAssume(f != "" && t != "" && f != t)
		vAssert(RegisterUpcastFunc(bus, f, t, c16Dummy) == nil, "register-ok")
		edges = append(edges, c16Edge{f, t})
	}
	err := RegisterUpcast(bus, func(x evNamed) *evNamedP { return &evNamedP{N: x.N} })
	from, to := evNamedName, evNamedPName
	want := from == "" || to == "" || from == to || c16Reaches(edges, to, from)
	vAssert((err != nil) == want, "rejected-iff-invalid-or-cycle")
	if err == nil {
		vAssert(c16Count(bus.upcastRegistry) == len(edges)+1, "accepted-adds-one")
		all := append(edges, c16Edge{from, to})
		for _, e := range all {
			vAssert(!c16Reaches(all, e.t, e.f), "post-acyclic")
		}
		vCover("typed-accepted")
	} else {
		vAssert(c16Count(bus.upcastRegistry) == len(edges), "rejected-leaves-registry-unchanged")
		vCover("typed-rejected")
	}
}
