package eventbus

import "context"

//verif:entry property=C01 tier=both bounds="re-entrancy: n<=N plain handlers of one type (plus one of another type); each of them a Once handler or not (symbolic); during a publish, handler k performs ONE operation out of {subscribe same type, subscribe other type, unsubscribe handler j, clear, clear-all, nested publish same type, nested publish other type, nothing} and then queries HasHandlers/HandlerCount of both types; deliveries of the running publish = snapshot at its start" cover="reentrant-done" N_quick=3 N_thorough=3
func harnessC01Reentrant() {
	N := vParam("N", 3)
	c01Log, c01Re = nil, nil
	bus := New()
	m := &c01Model{}
	n := vInt(1, N)
	allOnce := false // some handler of the type is a Once handler (each one's flag is symbolic)
	for i := 0; i < n; i++ {
		once := vBool()
		if once {
			allOnce = true
			vAssert(Subscribe(bus, c01HA[i], Once()) == nil, "subscribe-ok")
		} else {
			vAssert(Subscribe(bus, c01HA[i]) == nil, "subscribe-ok")
		}
		m.subscribe(0, &c01Reg{id: i, once: once})
	}
	vAssert(Subscribe(bus, c01HB[0]) == nil, "subscribe-ok")
	m.subscribe(1, &c01Reg{id: 0})
	k := vInt(0, n-1)
	op := vPick(8) // 7: no operation, only the queries below
	// a nested publish of the same type with Once handlers is a different question (C04)
	vAssume(!(allOnce && op == 5))
	j := vInt(0, n-1)
	done := false
	// expected log, built alongside
	var want []c01Entry
	snapshot := append([]*c01Reg{}, m.regs[0]...)
	c01Re = func(typ, id int) {
		if done || typ != 0 || id != k {
			return
		}
		done = true
		switch op {
		case 0:
			Subscribe(bus, c01HA[0]) // a duplicate registration of handler 0
			m.subscribe(0, &c01Reg{id: 0})
		case 1:
			Subscribe(bus, c01HB[1])
			m.subscribe(1, &c01Reg{id: 1})
		case 2:
			err := Unsubscribe[evA](bus, c01HA[j])
			vAssert((err == nil) == m.unsubscribe(0, j), "unsubscribe-error-iff-missing")
		case 3:
			Clear[evA](bus)
			m.regs[0] = nil
		case 4:
			ClearAll(bus)
			m.regs = [3][]*c01Reg{}
		case 5:
			PublishContext(bus, context.Background(), evA{N: 50})
		case 6:
			PublishContext(bus, context.Background(), evB{N: 60})
		}
		// the two registry queries describe one registry, also from inside a delivery
		cntA, hasA := HandlerCount[evA](bus), HasHandlers[evA](bus)
		cntB, hasB := HandlerCount[evB](bus), HasHandlers[evB](bus)
		vAssert(hasA == (cntA > 0) && hasB == (cntB > 0), "HasHandlers-agrees-with-HandlerCount-inside-a-delivery")
		vAssert(cntB == len(m.regs[1]), "HandlerCount-agrees-inside-a-delivery")
		if !allOnce {
			// (when a fired Once handler leaves the registry is not fixed by the statement)
			vAssert(cntA == len(m.regs[0]), "HandlerCount-agrees-inside-a-delivery")
		}
	}
	for _, r := range snapshot {
		want = append(want, c01Entry{0, r.id, 1})
		if r.id == k {
			switch op {
			case 5:
				for _, q := range snapshot {
					want = append(want, c01Entry{0, q.id, 50})
				}
			case 6:
				want = append(want, c01Entry{1, 0, 60})
			}
		}
	}
	Publish(bus, evA{N: 1})
	if allOnce {
		// every Once handler of the snapshot has fired and is retired; what was added meanwhile stays
		var keep []*c01Reg
		for _, r := range m.regs[0] {
			inSnap := false
			for _, q := range snapshot {
				if q == r {
					inSnap = true
				}
			}
			if !inSnap || !r.once {
				keep = append(keep, r)
			}
		}
		m.regs[0] = keep
	}
	vAssert(done, "reentrant-operation-ran")
	vAssert(c01SameOrdered(c01TakeLog(), want), "running-publish-delivers-its-snapshot")
	c01Re = nil
	c01Agree(bus, m, 2)
	vCover("reentrant-done")
}

// ---- routing: type names chosen by the solver decide the shard

type TXa struct{ N int }
type TXb struct{ N int }

//verif:entry property=C01 tier=both bounds="routing: two event types whose reflect names are 'eventbus.T' + 3 solver-chosen bytes [a-z0-9] (every shard placement of both, same or different shard); handlers, counts, Clear (also of a type without handlers) and ClearAll stay per type" cover="same-shard,different-shard"
func harnessC01Routing() {
	vSymbolicTypeName(TXa{}, 3)
	vSymbolicTypeName(TXb{}, 3)
	bus := New()
	vAssume(EventType(TXa{}) != EventType(TXb{}))
	same := bus.getShard(reflectTypeOf(TXa{})) == bus.getShard(reflectTypeOf(TXb{}))
	a, b := 0, 0
	withA := vBool()
	if withA {
		vAssert(Subscribe(bus, func(e TXa) { a++ }) == nil, "subscribe-ok")
	}
	vAssert(Subscribe(bus, func(e TXb) { b++ }) == nil, "subscribe-ok")
	vAssert(Subscribe(bus, func(e TXb) { b++ }) == nil, "subscribe-ok")
	vAssert(HandlerCount[TXa](bus) == b2n(withA) && HandlerCount[TXb](bus) == 2, "counts-per-type")
	vAssert(HasHandlers[TXa](bus) == withA && HasHandlers[TXb](bus), "has-handlers-per-type")
	Publish(bus, TXa{N: 1})
	vAssert(a == b2n(withA) && b == 0, "publish-reaches-only-its-type")
	Publish(bus, TXb{N: 1})
	vAssert(a == b2n(withA) && b == 2, "publish-reaches-only-its-type")
	switch vPick(3) {
	case 0:
		Clear[TXa](bus) // possibly a type without handlers
		vAssert(HandlerCount[TXa](bus) == 0 && HandlerCount[TXb](bus) == 2, "clear-removes-exactly-its-type")
		Publish(bus, TXb{N: 2})
		vAssert(b == 4, "other-type-still-delivered-after-clear")
	case 1:
		Clear[TXb](bus)
		vAssert(HandlerCount[TXb](bus) == 0 && HandlerCount[TXa](bus) == b2n(withA), "clear-removes-exactly-its-type")
		Publish(bus, TXa{N: 2})
		vAssert(a == 2*b2n(withA), "other-type-still-delivered-after-clear")
	case 2:
		ClearAll(bus)
		vAssert(HandlerCount[TXa](bus) == 0 && HandlerCount[TXb](bus) == 0 && !HasHandlers[TXa](bus) && !HasHandlers[TXb](bus), "clearall-removes-everything")
		Publish(bus, TXa{N: 3})
		Publish(bus, TXb{N: 3})
		vAssert(a == b2n(withA) && b == 2, "nothing-delivered-after-clearall")
	}
	if same {
		vCover("same-shard")
	} else {
		vCover("different-shard")
	}
}

func b2n(b bool) int {
	if b {
		return 1
	}
	return 0
}
