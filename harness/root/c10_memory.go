package eventbus

import (
	"context"
	"math"
	"sync"
	"time"
)

//verif:entry property=C10 tier=both bounds="memory store, inductive step: base position p in [0,10^18-3], two appends; order also against every earlier position q<=p; strings compared digit by digit" cover="appended" numstr=off
func harnessC10MemOffsetOrder() {
	ctx := context.Background()
	st := NewMemoryStore()
	p := vInt(0, 999999999999999990)
	q := vInt(0, p)
	// offset of an arbitrary earlier position q (q = 0: nothing appended yet)
	var oq Offset
	if q > 0 {
		st.nextOffset = int64(q - 1)
		oq, _ = st.Append(ctx, &Event{Type: "q"})
		st.events = nil
	}
	st.nextOffset = int64(p)
	o1, err1 := st.Append(ctx, &Event{Type: "a"})
	o2, err2 := st.Append(ctx, &Event{Type: "b"})
	vAssert(err1 == nil && err2 == nil, "append-ok")
	vAssert(o1 < o2, "offset-order")
	vAssert(o1 != o2, "offset-unique")
	vAssert(o1 != OffsetOldest && o2 != OffsetOldest, "offset-not-oldest")
	if q > 0 {
		vAssert(oq < o1, "offset-order-vs-earlier")
	}
	vAssert(len(st.events) == 2 && st.events[0].Offset == o1 && st.events[1].Offset == o2, "stored-in-order")
	vCover("appended")
}

type c10Rec struct {
	typ  string
	data []byte
	ts   time.Time
	off  Offset
}

// c10Fill appends n events with distinguishable payloads at a symbolic base position.
func c10Fill(st *MemoryStore, n int) []c10Rec {
	ctx := context.Background()
	recs := make([]c10Rec, 0, n)
	for i := 0; i < n; i++ {
		r := c10Rec{typ: vStr("type"), data: []byte{'0' + byte(i)}, ts: vTime("ts")}
		o, err := st.Append(ctx, &Event{Type: r.typ, Data: r.data, Timestamp: r.ts})
		vAssert(err == nil, "append-ok")
		r.off = o
		recs = append(recs, r)
	}
	return recs
}

func c10Same(e *StoredEvent, r c10Rec) bool {
	return e.Offset == r.off && e.Type == r.typ && string(e.Data) == string(r.data) && e.Timestamp.Equal(r.ts) && e.Timestamp.Location() == r.ts.Location()
}

//verif:entry property=C10 tier=both bounds="memory store: symbolic base position p in [0,10^18-8], log length n<=N, chain of R reads with limits in [-1,N+1] or within 8 of the largest int, start index k<=n, each resume from next or from any returned event" cover="chain-done,resumed-from-event" N_quick=3 N_thorough=4 R_quick=2 R_thorough=3
func harnessC10MemReadChain() {
	N := vParam("N", 3)
	R := vParam("R", 2)
	ctx := context.Background()
	st := NewMemoryStore()
	st.nextOffset = int64(vInt(0, 999999999999999990))
	n := vInt(0, N)
	recs := c10Fill(st, n)
	k := vInt(0, n)
	from := OffsetOldest
	if k > 0 {
		from = recs[k-1].off
	}
	pos := k
	for r := 0; r < R; r++ {
		l := vInt(-1, N+1)
		if vBool() {
			l = vInt(math.MaxInt-8, math.MaxInt) // "no limit in practice": the largest values an int can hold
		}
		evs, next, err := st.Read(ctx, from, l)
		vAssert(err == nil, "read-ok")
		want := n - pos
		if l > 0 && l < want {
			want = l
		}
		vAssert(len(evs) == want, "read-count")
		for i := 0; i < len(evs); i++ {
			vAssert(c10Same(evs[i], recs[pos+i]), "read-order-and-content")
		}
		if len(evs) > 0 {
			vAssert(next == evs[len(evs)-1].Offset, "next-is-last-returned")
		}
		if len(evs) > 0 && vBool() {
			j := vInt(0, len(evs)-1)
			from = evs[j].Offset
			pos = pos + j + 1
			vCover("resumed-from-event")
		} else {
			from = next
			pos += len(evs)
		}
	}
	// whatever is left comes back from one unlimited read, and the stream agrees
	rest, _, err := st.Read(ctx, from, 0)
	vAssert(err == nil && len(rest) == n-pos, "tail-complete")
	i := 0
	var kept []*StoredEvent // a consumer may hold on to what the stream handed it
	for ev, serr := range st.ReadStream(ctx, from) {
		vAssert(serr == nil, "stream-ok")
		vAssert(i < len(rest) && ev == rest[i], "stream-same-sequence")
		kept = append(kept, ev)
		i++
	}
	vAssert(i == len(rest), "stream-same-length")
	for j, ev := range kept {
		vAssert(ev == rest[j] && ev.Offset == rest[j].Offset, "streamed-events-stay-what-they-were")
	}
	vCover("chain-done")
}

//verif:entry property=C10 tier=both bounds="memory store: 3 SaveOffset calls with arbitrary (SMT string) subscription ids and offsets, load of an arbitrary id; two separately created stores" cover="loaded"
func harnessC10MemOffsetsAndIsolation() {
	ctx := context.Background()
	s1, s2 := NewMemoryStore(), NewMemoryStore()
	ids := []string{vStr("id0"), vStr("id1"), vStr("id2")}
	offs := []Offset{Offset(vStr("o0")), Offset(vStr("o1")), Offset(vStr("o2"))}
	for i := range ids {
		vAssert(s1.SaveOffset(ctx, ids[i], offs[i]) == nil, "save-ok")
	}
	probe := vStr("probe")
	want := OffsetOldest
	for i := range ids {
		if ids[i] == probe {
			want = offs[i] // last write wins
		}
	}
	got, err := s1.LoadOffset(ctx, probe)
	vAssert(err == nil, "load-ok")
	vAssert(got == want, "load-last-saved-or-oldest")
	// the other store saw nothing
	got2, err2 := s2.LoadOffset(ctx, probe)
	vAssert(err2 == nil && got2 == OffsetOldest, "stores-isolated-offsets")
	s1.Append(ctx, &Event{Type: "x"})
	evs, _, _ := s2.Read(ctx, OffsetOldest, 0)
	vAssert(len(evs) == 0, "stores-isolated-events")
	evs1, _, _ := s1.Read(ctx, OffsetOldest, 0)
	vAssert(len(evs1) == 1, "own-events-visible")
	vCover("loaded")
}

//verif:entry property=C10 tier=both bounds="memory store, log length n<=N: a stream from start index k1 and, consumed completely while the first one stands at item #nestAt, a second stream from start index k2 (streams are independent: both yield exactly what Read returns); early stop of the inner stream symbolic" cover="streams-done" N_quick=3 N_thorough=5
func harnessC10MemStreams() {
	N := vParam("N", 3)
	ctx := context.Background()
	st := NewMemoryStore()
	n := vInt(0, N)
	recs := c10Fill(st, n)
	start := func(k int) Offset {
		if k > 0 {
			return recs[k-1].off
		}
		return OffsetOldest
	}
	k1, k2 := vInt(0, n), vInt(0, n)
	nestAt := vInt(0, N)
	stopInner := vInt(1, N+1) // the inner consumer stops after this many items (N+1: never)
	i := 0
	for ev, serr := range st.ReadStream(ctx, start(k1)) {
		vAssert(serr == nil, "stream-ok")
		vAssert(k1+i < n && c10Same(ev, recs[k1+i]), "stream-same-sequence")
		if i == nestAt {
			j := 0
			for ev2, serr2 := range st.ReadStream(ctx, start(k2)) {
				vAssert(serr2 == nil, "stream-ok")
				vAssert(k2+j < n && c10Same(ev2, recs[k2+j]), "stream-same-sequence")
				j++
				if j == stopInner {
					break
				}
			}
			if stopInner > n-k2 {
				vAssert(j == n-k2, "stream-same-length")
			}
		}
		i++
	}
	vAssert(i == n-k1, "stream-same-length")
	vCover("streams-done")
}

//verif:entry property=C10 tier=both bounds="memory store: G goroutines appending one event each at the same time (after one optional earlier append); every interleaving within the preemption bound; afterwards the log read in one piece, read one by one from each returned next offset, and streamed is the same sequence with strictly increasing offsets holding every appended event once" cover="appended" G_quick=2 G_thorough=3 preempt_quick=2 preempt_thorough=2 race=on
func harnessC10MemConcurrentAppend() {
	G := vParam("G", 2)
	ctx := context.Background()
	st := NewMemoryStore()
	n := G
	if vBool() {
		st.Append(ctx, &Event{Type: "pre", Data: []byte(`0`)})
		n++
	}
	offs := make([]Offset, G)
	var wg sync.WaitGroup
	for g := 0; g < G; g++ {
		wg.Add(1)
		g := g
		go func() {
			defer wg.Done()
			o, err := st.Append(ctx, &Event{Type: "t", Data: []byte{'1' + byte(g)}})
			vAssert(err == nil, "append-ok")
			offs[g] = o
		}()
	}
	wg.Wait()
	vJoinAll()
	all, _, err := st.Read(ctx, OffsetOldest, 0)
	vAssert(err == nil && len(all) == n, "read-count")
	for i := 1; i < len(all); i++ {
		vAssert(all[i-1].Offset < all[i].Offset, "offset-order")
	}
	for g := 0; g < G; g++ {
		found := 0
		for _, e := range all {
			if e.Offset == offs[g] && len(e.Data) == 1 && e.Data[0] == '1'+byte(g) {
				found++
			}
		}
		vAssert(found == 1, "append-offset-identifies-its-event")
	}
	// one by one, resumed from the returned next offset
	from := OffsetOldest
	for i := 0; i < n; i++ {
		evs, next, rerr := st.Read(ctx, from, 1)
		vAssert(rerr == nil && len(evs) == 1 && evs[0].Offset == all[i].Offset, "chain-has-no-gap-or-repeat")
		from = next
	}
	i := 0
	for ev, serr := range st.ReadStream(ctx, OffsetOldest) {
		vAssert(serr == nil && i < n && ev.Offset == all[i].Offset, "stream-same-sequence")
		i++
	}
	vAssert(i == n, "stream-same-sequence")
	vCover("appended")
}
