package eventbus

import "context"

//verif:entry property=C10 tier=both bounds="base position p in [0,10^18-3], two appends" cover="appended"
func harnessC10MemOffsetOrder() {
	ctx := context.Background()
	st := NewMemoryStore()
	p := vInt(0, 999999999999999990)
	st.nextOffset = int64(p)
	o1, err1 := st.Append(ctx, &Event{Type: "a"})
	o2, err2 := st.Append(ctx, &Event{Type: "b"})
	vAssert(err1 == nil && err2 == nil, "append-ok")
	vAssert(o1 < o2, "offset-order")
	vAssert(o1 != o2, "offset-unique")
	vAssert(len(o1) == 20, "padded-width")
	vCover("appended")
}
