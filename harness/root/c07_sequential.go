package eventbus

import (
	"context"
	"sync"
)

//verif:entry property=C07 tier=both bounds="one Sequential handler (plain or context-aware; enter; yield; exit; the first invocation may panic), optionally behind a Once handler, and G concurrent synchronous publishers of one event each (typed or through Publish[any]), whose contexts the running invocation may cancel; every interleaving within the preemption bound" cover="done" G_quick=2 G_thorough=3 preempt_quick=2 preempt_thorough=2 race=on
func harnessC07NoOverlapSync() { c07NoOverlapSync(vParam("G", 2)) }

//verif:entry property=C07 tier=thorough bounds="as above with 2 concurrent publishers and up to 3 preemptions" cover="done" preempt=3 race=on
func harnessC07NoOverlapSyncDeep() { c07NoOverlapSync(2) }

func c07NoOverlapSync(G int) {
	bus := New()
	var mu sync.Mutex
	inside, maxInside, count := 0, 0, 0
	seen := map[int]int{}
	panicFirst := vBool() // the first invocation panics after leaving the critical section
	first := true
	if vBool() {
		// a one-shot handler registered in front of it (retired by whichever publisher fires it)
		Subscribe(bus, func(e evA) {}, Once())
	}
	// the running invocation cancels the contexts of all publishers (those still waiting
	// for their turn included): waiting must not end in an unprotected invocation
	cancelOthers := vBool()
	ctxs := make([]context.Context, G)
	cancels := make([]context.CancelFunc, G)
	for g := 0; g < G; g++ {
		ctxs[g], cancels[g] = context.WithCancel(context.Background())
	}
	body := func(e evA) {
		mu.Lock()
		inside++
		if inside > maxInside {
			maxInside = inside
		}
		mu.Unlock()
		if cancelOthers {
			for _, c := range cancels {
				c()
			}
		}
		vYield()
		mu.Lock()
		inside--
		count++
		seen[e.N]++
		boom := panicFirst && first
		first = false
		mu.Unlock()
		if boom {
			panic("first invocation fails")
		}
	}
	if vBool() {
		// a context-aware handler: still one invocation at a time, whatever happens to its context
		SubscribeContext(bus, func(hc context.Context, e evA) { body(e) }, Sequential())
	} else {
		Subscribe(bus, body, Sequential())
	}
	var wg sync.WaitGroup
	for g := 0; g < G; g++ {
		wg.Add(1)
		n := g
		viaAny := vBool() // published through an interface-typed parameter (reflection dispatch)
		go func() {
			defer wg.Done()
			if viaAny {
				PublishContext[any](bus, ctxs[n], evA{N: n})
			} else {
				PublishContext(bus, ctxs[n], evA{N: n})
			}
		}()
	}
	wg.Wait()
	vAssert(maxInside <= 1, "sequential-invocations-never-overlap")
	for g := 0; g < G; g++ {
		if cancelOthers {
			vAssert(seen[g] <= 1, "each-event-exactly-once") // a publish cancelled before its turn may be skipped
		} else {
			vAssert(seen[g] == 1, "each-event-exactly-once")
		}
	}
	if !cancelOthers {
		vAssert(count == G, "every-event-delivered")
	}
	for _, c := range cancels {
		c()
	}
	vCover("done")
}

// c07AsyncSequential: the two options in either order (the combination is what is documented).
func c07AsyncSequential(swapped bool) []SubscribeOption {
	if swapped {
		return []SubscribeOption{Sequential(), Async()}
	}
	return []SubscribeOption{Async(), Sequential()}
}

//verif:entry property=C07 tier=both bounds="one Async+Sequential handler (options in either order; enter; yield; exit), K events published one after another by one goroutine, optionally behind one publish whose context has already ended; every interleaving of the dispatch goroutines within the preemption bound" cover="done" K_quick=2 K_thorough=3 preempt_quick=2 preempt_thorough=2 race=on
func harnessC07AsyncOrder() {
	K := vParam("K", 2)
	bus := New()
	var mu sync.Mutex
	inside, maxInside := 0, 0
	var order []int
	Subscribe(bus, func(e evA) {
		mu.Lock()
		inside++
		if inside > maxInside {
			maxInside = inside
		}
		order = append(order, e.N)
		mu.Unlock()
		vYield()
		mu.Lock()
		inside--
		mu.Unlock()
	}, c07AsyncSequential(vBool())...)
	// optionally one more publish in front whose context has already ended: it is skipped, and must not keep
	// the events behind it from being delivered
	if vBool() {
		dead, cancel := context.WithCancel(context.Background())
		cancel()
		PublishContext(bus, dead, evA{N: 99})
	}
	for i := 0; i < K; i++ {
		Publish(bus, evA{N: i})
	}
	bus.Wait()
	vAssert(maxInside <= 1, "sequential-invocations-never-overlap")
	vAssert(len(order) == K, "every-event-delivered-once")
	inOrder := true
	for i := range order {
		if order[i] != i {
			inOrder = false
		}
	}
	vAssertK(inOrder, "async-sequential-preserves-publish-order", "KF-C07-async-order", true)
	vCover("done")
}

//verif:entry property=C07 tier=both bounds="SubscribeWithReplay with a Sequential handler over two stored events, racing with one live publisher; every interleaving within the preemption bound; the handler must never overlap itself" cover="done" preempt_quick=2 preempt_thorough=3 race=on
func harnessC07ReplayAndLive() {
	mem := NewMemoryStore()
	bus := New(WithStore(mem))
	Publish(bus, evA{N: 1})
	Publish(bus, evA{N: 2})
	var mu sync.Mutex
	inside, maxInside := 0, 0
	h := func(e evA) {
		mu.Lock()
		inside++
		if inside > maxInside {
			maxInside = inside
		}
		mu.Unlock()
		vYield()
		mu.Lock()
		inside--
		mu.Unlock()
	}
	var wg sync.WaitGroup
	wg.Add(2)
	go func() {
		defer wg.Done()
		SubscribeWithReplay(context.Background(), bus, "sub", h, Sequential())
	}()
	go func() {
		defer wg.Done()
		Publish(bus, evA{N: 3})
	}()
	wg.Wait()
	vJoinAll()
	vAssert(maxInside <= 1, "sequential-invocations-never-overlap")
	vCover("done")
}

type c07Key string

//verif:entry property=C07 tier=both bounds="one Async+Sequential handler (plain or context-aware; enter; yield; exit) whose first invocation publishes one more event of its own type with the context it was given; one initial publish; every interleaving of the dispatch goroutines within the preemption bound" cover="done" preempt_quick=2 preempt_thorough=3 race=on
func harnessC07SelfPublish() {
	bus := New()
	var mu sync.Mutex
	inside, maxInside := 0, 0
	seen := map[int]int{}
	body := func(hc context.Context, e evA) {
		mu.Lock()
		inside++
		if inside > maxInside {
			maxInside = inside
		}
		seen[e.N]++
		mu.Unlock()
		if e.N == 1 {
			PublishContext(bus, hc, evA{N: 2}) // dispatched asynchronously: must wait for this invocation to finish
		}
		vYield()
		mu.Lock()
		inside--
		mu.Unlock()
	}
	if vBool() {
		SubscribeContext(bus, func(hc context.Context, e evA) { body(hc, e) }, Async(), Sequential())
	} else {
		Subscribe(bus, func(e evA) { body(context.Background(), e) }, Async(), Sequential())
	}
	PublishContext(bus, context.WithValue(context.Background(), c07Key("k"), 1), evA{N: 1})
	bus.Wait()
	vAssert(maxInside <= 1, "sequential-invocations-never-overlap")
	vAssert(seen[1] == 1 && seen[2] == 1, "each-event-exactly-once")
	vCover("done")
}

//verif:entry property=C07 tier=both bounds="a Sequential handler (plain or context-aware) being subscribed by one goroutine while two others publish (optionally firing and retiring a Once handler meanwhile), then one more event; every interleaving within the preemption bound; from its first invocation on, never two at a time (race monitor on)" cover="done" preempt_quick=2 preempt_thorough=3 race=on
func harnessC07SubscribeWhilePublishing() {
	bus := New()
	var mu sync.Mutex
	inside, maxInside := 0, 0
	body := func() {
		mu.Lock()
		inside++
		if inside > maxInside {
			maxInside = inside
		}
		mu.Unlock()
		vYield()
		mu.Lock()
		inside--
		mu.Unlock()
	}
	ctxAware := vBool()
	late := 0 // invocations for the event published after everything above has returned
	if vBool() {
		// a one-shot handler the racing publishes fire (and retire) while the Sequential one is being subscribed
		vAssert(Subscribe(bus, func(e evA) { vYield() }, Once()) == nil, "subscribe-ok")
	}
	var wg sync.WaitGroup
	wg.Add(3)
	go func() {
		defer wg.Done()
		if ctxAware {
			vAssert(SubscribeContext(bus, func(hc context.Context, e evA) {
				if e.N == 9 {
					late++
				}
				body()
			}, Sequential()) == nil, "subscribe-ok")
		} else {
			vAssert(Subscribe(bus, func(e evA) {
				if e.N == 9 {
					late++
				}
				body()
			}, Sequential()) == nil, "subscribe-ok")
		}
	}()
	for g := 0; g < 2; g++ {
		n := g
		go func() {
			defer wg.Done()
			Publish(bus, evA{N: n})
		}()
	}
	wg.Wait()
	vAssert(maxInside <= 1, "sequential-invocations-never-overlap")
	// the subscription has returned: a later event reaches the handler exactly once
	Publish(bus, evA{N: 9})
	vAssert(late == 1, "each-event-exactly-once")
	vAssert(maxInside <= 1, "sequential-invocations-never-overlap")
	vCover("done")
}

func c07O0(e evA) {}
func c07O1(e evA) {}
func c07O2(e evA) {}

var c07Others = []Handler[evA]{c07O0, c07O1, c07O2}

//verif:entry property=C07 tier=both bounds="a Sequential handler (sync or Async) at any position among two ordinary handlers of its type; one or two registry changes that do not concern it (an ordinary handler unsubscribed, subscribed again, another type cleared), then two events: the Sequential handler still gets every event exactly once" cover="done"
func harnessC07RegistryChanges() {
	bus := New()
	pos := vPick(3)
	async := vBool()
	var mu sync.Mutex
	seen := map[int]int{}
	so := []SubscribeOption{Sequential()}
	if async {
		so = append(so, Async())
	}
	var others []int
	for i := 0; i < 3; i++ {
		if i == pos {
			vAssert(Subscribe(bus, func(e evA) { mu.Lock(); seen[e.N]++; mu.Unlock() }, so...) == nil, "subscribe-ok")
		} else {
			vAssert(Subscribe(bus, c07Others[i]) == nil, "subscribe-ok")
			others = append(others, i)
		}
	}
	Subscribe(bus, func(e evB) {})
	changes := vInt(1, 2)
	for c := 0; c < changes; c++ {
		switch vPick(3) {
		case 0:
			_ = Unsubscribe[evA](bus, c07Others[others[vPick(2)]])
		case 1:
			_ = Subscribe(bus, c07Others[others[vPick(2)]])
		case 2:
			Clear[evB](bus)
		}
	}
	for n := 1; n <= 2; n++ {
		Publish(bus, evA{N: n})
	}
	bus.Wait()
	vJoinAll()
	mu.Lock()
	vAssert(seen[1] == 1 && seen[2] == 1 && len(seen) == 2, "each-event-exactly-once")
	mu.Unlock()
	vCover("done")
}
