package eventbus

import (
	"context"
)

type evV2 struct {
	N int `json:"n"`
	V int `json:"v"`
}

// c15Name is an arbitrary custom type name. Upcast registration rejects empty
// names and source == target (C16), so those degenerate names are excluded.
func c15Name() string {
	n := vStr("custom-name")
	vAssume(n != "eventbus.evV2" && n != "eventbus.evA")
	return n
}

// c15Roundtrip: publish e on a persistent bus, then on a new bus over the same
// store check that every API deriving a name from the Go type finds the record.
func c15Check[T any](e T, want int) {
	ctx := context.Background()
	st := NewMemoryStore()
	bus := New(WithStore(st))
	Publish(bus, e)
	evs, _, _ := st.Read(ctx, OffsetOldest, 0)
	vAssert(len(evs) == 1, "persisted")
	vAssert(evs[0].Type == EventType(e), "stored-type-is-EventType")
	vObserve("stored-type-name", evs[0].Type) // compared between engine and native build in the conformance runs

	// typed replay subscription on a fresh bus
	bus2 := New(WithStore(st))
	got := 0
	err := SubscribeWithReplay(ctx, bus2, "sub", func(x T) { got++ })
	vAssert(err == nil, "subscribe-ok")
	vAssert(got == 1, "typed-replay-subscription-matches-stored-name")

	// typed upcast registration for the type as source (an empty type name cannot be registered: C16)
	if EventType(e) == "" {
		vCover("checked")
		return
	}
	bus3 := New(WithStore(st))
	if vBool() {
		// the same bus has already replayed this log once, before any upcaster was known
		vAssert(bus3.ReplayWithUpcast(ctx, OffsetOldest, func(*StoredEvent) error { return nil }) == nil, "replay-ok")
	}
	vAssert(RegisterUpcast(bus3, func(x T) evV2 { return evV2{N: want, V: 2} }) == nil, "register-ok")
	seenV2 := 0
	rerr := bus3.ReplayWithUpcast(ctx, OffsetOldest, func(se *StoredEvent) error {
		if se.Type == EventType(evV2{}) {
			seenV2++
		}
		return nil
	})
	vAssert(rerr == nil, "replay-ok")
	vAssert(seenV2 == 1, "typed-upcast-source-matches-stored-name")
	// the upcasting replay is a view: afterwards the record is still selected by its own name
	byName := 0
	perr := bus3.Replay(ctx, OffsetOldest, func(se *StoredEvent) error {
		if se.Type == EventType(e) {
			byName++
		}
		return nil
	})
	vAssert(perr == nil && byName == 1, "replay-with-EventType-comparison-matches-stored-name")
	bus4 := New(WithStore(st))
	got = 0
	vAssert(SubscribeWithReplay(ctx, bus4, "sub-2", func(x T) { got++ }) == nil, "subscribe-ok")
	vAssert(got == 1, "typed-replay-subscription-matches-stored-name")
	vCover("checked")
}

//verif:entry property=C15 tier=both bounds="a type whose EventTypeName depends on the value: K events with arbitrary (SMT string) names on one bus; each is stored under the name EventType reports for that very value" cover="checked" K_quick=2 K_thorough=3
func harnessC15ValueDependentNames() {
	K := vParam("K", 2)
	ctx := context.Background()
	st := NewMemoryStore()
	bus := New(WithStore(st))
	names := make([]string, K)
	for i := range names {
		names[i] = vStr("dyn-name")
		e := evDyn{Name: names[i], N: i}
		vAssert(EventType(e) == names[i], "stored-type-is-EventType")
		Publish(bus, e)
	}
	evs, _, _ := st.Read(ctx, OffsetOldest, 0)
	vAssert(len(evs) == K, "persisted")
	for i := range evs {
		vAssert(evs[i].Type == names[i], "stored-type-is-EventType")
	}
	probe := vPick(K)
	sel := 0
	err := bus.Replay(ctx, OffsetOldest, func(se *StoredEvent) error {
		if se.Type == EventType(evDyn{Name: names[probe]}) {
			sel++
		}
		return nil
	})
	same := 0
	for i := range names {
		if names[i] == names[probe] {
			same++
		}
	}
	vAssert(err == nil && sel == same, "replay-with-EventType-comparison-matches-stored-name")
	vCover("checked")
}

//verif:entry property=C15 tier=both bounds="shape: plain struct value; field values symbolic" cover="checked"
func harnessC15PlainValue() { c15Check(evA{N: vInt(-3, 3)}, 1) }

//verif:entry property=C15 tier=both bounds="shape: pointer to plain struct" cover="checked"
func harnessC15PlainPointer() { c15Check(&evA{N: vInt(-3, 3)}, 1) }

//verif:entry property=C15 tier=both bounds="shape: custom EventTypeName on value receiver, arbitrary (SMT string) custom name" cover="checked"
func harnessC15NamedValue() {
	evNamedName = c15Name()
	c15Check(evNamed{N: vInt(-3, 3)}, 1)
}

//verif:entry property=C15 tier=both bounds="shape: pointer to a type with EventTypeName on value receiver, arbitrary custom name" cover="checked"
func harnessC15NamedValueAsPointer() {
	evNamedName = c15Name()
	c15Check(&evNamed{N: vInt(-3, 3)}, 1)
}

//verif:entry property=C15 tier=both bounds="shape: EventTypeName on pointer receiver, published as pointer, arbitrary custom name" cover="checked"
func harnessC15NamedPtrAsPointer() {
	evNamedPName = c15Name()
	c15Check(&evNamedP{N: vInt(-3, 3)}, 1)
}

//verif:entry property=C15 tier=both bounds="shape: EventTypeName on pointer receiver, published as value" cover="checked"
func harnessC15NamedPtrAsValue() {
	evNamedPName = c15Name()
	c15Check(evNamedP{N: vInt(-3, 3)}, 1)
}

//verif:entry property=C15 tier=both bounds="typed upcast target: RegisterUpcast[evA,evNamed] must produce the name under which evNamed is persisted, so that SubscribeWithReplay[evNamed]-style consumers and EventType comparisons match" cover="checked"
func harnessC15UpcastTargetName() {
	ctx := context.Background()
	evNamedName = c15Name()
	vAssume(evNamedName != "")
	st := NewMemoryStore()
	bus := New(WithStore(st))
	Publish(bus, evA{N: 1})
	bus2 := New(WithStore(st))
	vAssert(RegisterUpcast(bus2, func(x evA) evNamed { return evNamed{N: x.N} }) == nil, "register-ok")
	matched := 0
	err := bus2.ReplayWithUpcast(ctx, OffsetOldest, func(se *StoredEvent) error {
		if se.Type == EventType(evNamed{}) {
			matched++
		}
		return nil
	})
	vAssert(err == nil, "replay-ok")
	vAssert(matched == 1, "typed-upcast-target-is-EventType-name")
	vCover("checked")
}

//verif:entry property=C15 tier=both bounds="shape: nil pointer of a type with EventTypeName on pointer receiver" cover="checked"
func harnessC15NilPointer() {
	evNamedPName = c15Name()
	c15Check((*evNamedP)(nil), 1)
}

//verif:entry property=C15 tier=both bounds="shape: nil pointer to a plain struct" cover="checked"
func harnessC15NilPlainPointer() { c15Check((*evA)(nil), 1) }

//verif:entry property=C15 tier=both bounds="one struct published both by value and by pointer on one bus, a typed upcaster registered for the value type only" cover="checked"
func harnessC15ValueAndPointerTogether() {
	ctx := context.Background()
	st := NewMemoryStore()
	bus := New(WithStore(st))
	Publish(bus, evA{N: 1})
	Publish(bus, &evA{N: 2})
	bus2 := New(WithStore(st))
	vAssert(RegisterUpcast(bus2, func(x evA) evV2 { return evV2{N: x.N, V: 2} }) == nil, "register-ok")
	var types []string
	vAssert(bus2.ReplayWithUpcast(ctx, OffsetOldest, func(se *StoredEvent) error {
		types = append(types, se.Type)
		return nil
	}) == nil, "replay-ok")
	vAssert(len(types) == 2 && types[0] == EventType(evV2{}), "value-event-upcast-by-its-typed-upcaster")
	vAssert(types[1] == EventType(&evA{}), "pointer-event-keeps-its-own-name")
	gotPtr := 0
	bus3 := New(WithStore(st))
	RegisterUpcast(bus3, func(x evA) evV2 { return evV2{N: x.N, V: 2} })
	vAssert(SubscribeWithReplay(ctx, bus3, "p", func(x *evA) { gotPtr++ }) == nil, "subscribe-ok")
	vAssert(gotPtr == 1, "typed-replay-subscription-matches-stored-name")
	vCover("checked")
}

// evEmb embeds a named event: the promoted EventTypeName is its name as well.
type evEmb struct {
	evNamed
	X int `json:"x"`
}

//verif:entry property=C15 tier=both bounds="shape: a struct that embeds a type with EventTypeName (the promoted method names it), arbitrary custom name" cover="checked"
func harnessC15EmbeddedNamed() {
	evNamedName = c15Name()
	c15Check(evEmb{evNamed: evNamed{N: vInt(-3, 3)}, X: 1}, 1)
}

// Two distinct Go types that print alike: both are declared as "Created" inside a function, so reflect renders
// both as "eventbus.Created"; one carries an explicit event type name through an embedded TypeNamer, the other
// is named by its Go type. Whatever was resolved first must not leak into the other.
type c15TagBilling struct{}

func (c15TagBilling) EventTypeName() string { return "billing.created.v1" }

func c15LocalNamed(n int) {
	type Created struct {
		c15TagBilling
		N int `json:"n"`
	}
	vAssert(EventType(Created{}) == "billing.created.v1", "stored-type-is-EventType")
	c15Check(Created{N: n}, n)
}

func c15LocalPlain(n int) {
	type Created struct {
		N int `json:"n"`
	}
	vAssert(EventType(Created{}) == "eventbus.Created", "stored-type-is-EventType")
	c15Check(Created{N: n}, n)
}

func c15LocalPlainPtr(n int) {
	type Created struct {
		N int `json:"n"`
	}
	c15Check(&Created{N: n}, n)
}

//verif:entry property=C15 tier=both bounds="distinct Go types that reflect prints alike (function-local types of one name): one with an embedded TypeNamer, one plain, one published by pointer - used one after the other in either order in one process; each is persisted, replayed and upcast under its own EventType name" cover="checked"
func harnessC15SameNameDistinctTypes() {
	n := vInt(0, 100)
	switch vPick(3) {
	case 0:
		c15LocalNamed(n)
		c15LocalPlain(n)
	case 1:
		c15LocalPlain(n)
		c15LocalNamed(n)
	case 2:
		c15LocalPlainPtr(n)
		c15LocalNamed(n)
		c15LocalPlain(n)
	}
}

// c15Box is a generic event type; its reflect name carries the full import path of a named type argument.
type c15Box[T any] struct {
	V T `json:"v"`
}

//verif:entry property=C15 tier=both bounds="shape: instantiated generic struct with a named type argument, published by value or by pointer" cover="checked"
func harnessC15GenericShapes() {
	if vBool() {
		c15Check(c15Box[evA]{V: evA{N: vInt(-3, 3)}}, 1)
	} else {
		c15Check(&c15Box[evA]{V: evA{N: vInt(-3, 3)}}, 1)
	}
}
