package eventbus

import (
	"context"
	"sync"
)

// c12Store wraps the real MemoryStore (events + subscription offsets) and
// injects ONE fault: the failAt-th store operation fails without effect, or the
// process dies right after the crashAt-th operation completed (every later
// operation of that process has no effect).
type c12Store struct {
	inner    *MemoryStore
	ops      int
	failAt   int
	crashAt  int
	dead     bool
	faulted  bool
	maxSaved map[string]Offset // highest offset ever saved per id
	chunk    int               // > 0: a page never holds more than chunk events
}

func (s *c12Store) step() (fail bool) {
	if s.dead {
		return true
	}
	i := s.ops
	s.ops++
	if i == s.failAt {
		s.faulted = true
		return true
	}
	return false
}

func (s *c12Store) after() {
	if s.ops-1 == s.crashAt && !s.dead {
		s.dead = true
		s.faulted = true
	}
}

func (s *c12Store) Append(ctx context.Context, e *Event) (Offset, error) {
	if s.step() {
		return "", errInjected
	}
	o, err := s.inner.Append(ctx, e)
	s.after()
	return o, err
}

func (s *c12Store) Read(ctx context.Context, from Offset, limit int) ([]*StoredEvent, Offset, error) {
	if s.step() {
		return nil, from, errInjected
	}
	if s.chunk > 0 && (limit <= 0 || limit > s.chunk) {
		limit = s.chunk
	}
	evs, next, err := s.inner.Read(ctx, from, limit)
	s.after()
	return evs, next, err
}

func (s *c12Store) SaveOffset(ctx context.Context, id string, o Offset) error {
	if s.step() {
		return errInjected
	}
	prev, _ := s.inner.LoadOffset(ctx, id)
	// a subscription's saved offset never moves backwards
	vAssert(!(o < prev), "saved-offset-never-decreases")
	err := s.inner.SaveOffset(ctx, id, o)
	if s.maxSaved[id] < o {
		s.maxSaved[id] = o
	}
	s.after()
	return err
}

func (s *c12Store) LoadOffset(ctx context.Context, id string) (Offset, error) {
	if s.step() {
		return "", errInjected
	}
	o, err := s.inner.LoadOffset(ctx, id)
	s.after()
	return o, err
}

type c12Delivery struct {
	n   int // event sequence number
	run int
}

type c12World struct {
	st   *c12Store
	bus  *EventBus
	run  int
	subd [2]bool // id subscribed on the current bus
	del  [2][]c12Delivery
	ids  [2]string
	seq  int
	// reent: sequence number whose live delivery to subscription 0 publishes one
	// follow-up event of the same type from inside the handler (0: none armed)
	reent            int
	explicitSubStore bool
}

func (w *c12World) restart() {
	w.st.dead = false
	if w.explicitSubStore {
		// the subscription store named explicitly (here: the same object) instead of being
		// discovered on the event store
		w.bus = New(WithSubscriptionStore(w.st), WithStore(w.st))
	} else {
		w.bus = New(WithStore(w.st))
	}
	w.run++
	w.subd = [2]bool{}
}

func (w *c12World) subscribe(i int) error {
	w.subd[i] = true
	return SubscribeWithReplay(context.Background(), w.bus, w.ids[i], func(e evA) {
		if w.st.dead {
			return // the process is gone: nothing is observed any more
		}
		w.del[i] = append(w.del[i], c12Delivery{e.N, w.run})
		if i == 0 && w.reent != 0 && e.N == w.reent {
			w.reent = 0
			w.seq++
			Publish(w.bus, evA{N: w.seq})
		}
	})
}

// c12Check is the oracle (DESIGN Appendix C).
func (w *c12World) check(exactlyOnce bool) {
	ctx := context.Background()
	// drain: a healthy restart with both subscriptions
	w.st.failAt, w.st.crashAt = -1, -1
	w.restart()
	vAssert(w.subscribe(0) == nil && w.subscribe(1) == nil, "drain-subscribe-ok")
	evs, _, _ := w.st.inner.Read(ctx, OffsetOldest, 0)
	// log restricted to the subscribed type, by sequence number
	var logN []int
	var logOff []Offset
	for _, se := range evs {
		if se.Type == "eventbus.evA" {
			var e evA
			vAssert(jsonUnmarshalOK(se.Data, &e), "log-decodes")
			logN = append(logN, e.N)
			logOff = append(logOff, se.Offset)
		}
	}
	for id := 0; id < 2; id++ {
		for li, n := range logN {
			cnt := 0
			for _, d := range w.del[id] {
				if d.n == n {
					cnt++
				}
			}
			vAssert(cnt >= 1, "no-persisted-event-lost")
			if exactlyOnce {
				vAssert(cnt == 1, "exactly-once-without-faults")
			}
			_ = li
		}
		// in log order within one run
		for a := 0; a < len(w.del[id]); a++ {
			for b := a + 1; b < len(w.del[id]); b++ {
				da, db := w.del[id][a], w.del[id][b]
				if da.run == db.run && c12Index(logN, da.n) >= 0 && c12Index(logN, db.n) >= 0 {
					vAssert(c12Index(logN, da.n) < c12Index(logN, db.n), "log-order-within-a-run")
				}
			}
		}
	}
}

func c12Index(xs []int, x int) int {
	for i, v := range xs {
		if v == x {
			return i
		}
	}
	return -1
}

// c12Redelivery: called by the harness whenever event n is delivered again to
// id: allowed only if its position was never saved for that id.
func (w *c12World) noteRedeliveries(id int, offOf func(n int) (Offset, bool)) {
	seen := map[int]bool{}
	for _, d := range w.del[id] {
		if seen[d.n] {
			if o, ok := offOf(d.n); ok {
				vAssert(w.st.maxSaved[w.ids[id]] < o || w.redeliveredBeforeSave(id, d.n), "redelivery-only-if-position-was-not-saved")
			}
		}
		seen[d.n] = true
	}
}

func (w *c12World) redeliveredBeforeSave(id, n int) bool { return false }

func c12History(H int, faults bool, prefix bool) {
	w := &c12World{ids: [2]string{"sub-a", "sub-b"}}
	w.st = &c12Store{inner: NewMemoryStore(), failAt: -1, crashAt: -1, maxSaved: map[string]Offset{}, chunk: vInt(0, 1)}
	failKind, faultPos := vBool(), 0
	if faults {
		faultPos = vInt(0, 6*H)
	}
	arm := func() {
		if !faults {
			return
		}
		if failKind {
			w.st.failAt = w.st.ops + faultPos
		} else {
			w.st.crashAt = w.st.ops + faultPos
		}
	}
	w.explicitSubStore = vBool()
	w.restart()
	if prefix {
		// a subscription that has already made progress in an earlier run and is resumed on a fresh bus
		np := vInt(1, 2)
		for i := 0; i < np; i++ {
			w.seq++
			Publish(w.bus, evA{N: w.seq})
		}
		_ = w.subscribe(0)
		w.restart()
		if vBool() {
			_ = w.subscribe(0)
		}
	}
	arm()
	// offsets of evA events by sequence number, as appended
	offByN := map[int]Offset{}
	// redelivery rule is checked at delivery time through savedAtDelivery
	type red struct {
		id, n int
		max   Offset
	}
	for h := 0; h < H; h++ {
		switch vPick(6) {
		case 5:
			// a publish whose delivery to subscription 0 publishes a follow-up event from inside the handler
			// (only while subscription B is not live on this bus: with two live subscriptions a
			// synchronous nested publish reaches the later handler before the outer event does,
			// which is how synchronous dispatch works and not what the statement is about)
			w.seq++
			if !w.subd[1] {
				w.reent = w.seq
			}
			Publish(w.bus, evA{N: w.seq})
			w.reent = 0
		case 0:
			w.seq++
			n := w.seq
			before := [2]int{len(w.del[0]), len(w.del[1])}
			maxBefore := [2]Offset{w.st.maxSaved[w.ids[0]], w.st.maxSaved[w.ids[1]]}
			Publish(w.bus, evA{N: n})
			_, _ = before, maxBefore
		case 1:
			Publish(w.bus, evB{N: 1})
		case 2, 3:
			id := 0
			if vPick(2) == 1 {
				id = 1
			}
			if !w.subd[id] {
				// deliveries of this call that repeat an event are redeliveries
				maxBefore := w.st.maxSaved[w.ids[id]]
				start := len(w.del[id])
				_ = w.subscribe(id)
				evs, _, _ := w.st.inner.Read(context.Background(), OffsetOldest, 0)
				for _, d := range w.del[id][start:] {
					again := false
					for _, p := range w.del[id][:start] {
						if p.n == d.n {
							again = true
						}
					}
					if again {
						for _, se := range evs {
							var e evA
							if se.Type == "eventbus.evA" && jsonUnmarshalOK(se.Data, &e) && e.N == d.n {
								vAssert(maxBefore < se.Offset, "redelivery-only-if-position-was-not-saved")
							}
						}
					}
				}
			}
		case 4:
			w.restart()
		}
		if w.st.dead {
			// the process died: the next thing that can happen is a restart
			w.restart()
		}
	}
	_ = offByN
	w.check(!w.st.faulted)
	if w.st.faulted {
		vCover("with-fault")
	} else {
		vCover("no-fault")
	}
}

//verif:entry property=C12 tier=both bounds="every history of H steps out of {publish subscribed type, the same with a handler that publishes a follow-up event of that type, publish other type, SubscribeWithReplay id A / id B (once per bus), restart} on the memory stores, no fault; drain restart at the end" cover="no-fault" H_quick=4 H_thorough=5
func harnessC12NoFault() { c12History(vParam("H", 4), false, false) }

//verif:entry property=C12 tier=both bounds="as above with ONE fault: failure of the f-th store operation (append/read/save/load) or a crash right after the c-th store operation" cover="with-fault" H_quick=3 H_thorough=5
func harnessC12OneFault() { c12History(vParam("H", 3), true, false) }

//verif:entry property=C12 tier=both bounds="a subscription that made progress in an earlier run (1-2 events published and replayed under id A, then a restart, id A optionally resumed on the new bus), followed by every history of H further steps as above with ONE fault (failing store operation or crash) placed anywhere in those steps" cover="with-fault" H_quick=2 H_thorough=3
func harnessC12ResumedThenFault() { c12History(vParam("H", 2), true, true) }

//verif:entry property=C12 tier=both bounds="a publisher goroutine (K events of the subscribed type) interleaved at every synchronisation point with a running SubscribeWithReplay over the memory stores, one event persisted beforehand; then a drain restart; every interleaving within the preemption bound" cover="interleaved" K_quick=2 K_thorough=2 preempt_quick=2 preempt_thorough=3 race=on
func harnessC12ConcurrentPublisher() {
	K := vParam("K", 2)
	mem := NewMemoryStore()
	bus := New(WithStore(mem))
	Publish(bus, evA{N: 100})
	var mu sync.Mutex
	var dels []int
	h := func(e evA) {
		mu.Lock()
		dels = append(dels, e.N)
		mu.Unlock()
	}
	var wg sync.WaitGroup
	wg.Add(2)
	go func() {
		defer wg.Done()
		SubscribeWithReplay(context.Background(), bus, "sub", h)
	}()
	go func() {
		defer wg.Done()
		for i := 0; i < K; i++ {
			Publish(bus, evA{N: i + 1})
		}
	}()
	wg.Wait()
	vJoinAll()
	// drain: a restart with a healthy subscription must complete the picture
	mu.Lock()
	beforeDrain := len(dels)
	mu.Unlock()
	bus2 := New(WithStore(mem))
	vAssert(SubscribeWithReplay(context.Background(), bus2, "sub", h) == nil, "drain-subscribe-ok")
	logPos := func(n int) int { // position in the log: the pre-stored event first
		if n == 100 {
			return 0
		}
		return n
	}
	for _, n := range []int{100, 1, 2} {
		if n > K && n != 100 {
			continue
		}
		c := 0
		for _, d := range dels {
			if d == n {
				c++
			}
		}
		// the recorded finding: an event missed in the window between the replay's read and the
		// registration of the live handler is skipped for good ONCE A LATER EVENT IS DELIVERED LIVE
		// (the saved offset then jumps past it). A loss without such a later delivery is something else.
		laterLive := false
		for _, d := range dels[:beforeDrain] {
			if logPos(d) > logPos(n) {
				laterLive = true
			}
		}
		vAssertK(c >= 1, "no-persisted-event-lost", "KF-C12-publish-during-subscribe", laterLive)
		vAssertK(c <= 1, "exactly-once-without-faults", "KF-C12-live-offset-is-bus-wide", true)
	}
	vCover("interleaved")
}

// c12SafeStore is a thread-safe wrapper that watches saved offsets.
type c12SafeStore struct {
	*MemoryStore
	mu sync.Mutex
}

func (s *c12SafeStore) SaveOffset(ctx context.Context, id string, o Offset) error {
	s.mu.Lock()
	defer s.mu.Unlock()
	prev, _ := s.MemoryStore.LoadOffset(ctx, id)
	vAssertK(!(o < prev), "saved-offset-never-decreases", "KF-C12-concurrent-save-regress", true)
	return s.MemoryStore.SaveOffset(ctx, id, o)
}

//verif:entry property=C12 tier=both bounds="a live replay subscription and G concurrent publishers of the subscribed type on the memory stores; every interleaving within the preemption bound; the saved offset must never move backwards and ends at the last event" cover="raced" G_quick=2 G_thorough=2 preempt_quick=2 preempt_thorough=3 race=on
func harnessC12ConcurrentLive() {
	G := vParam("G", 2)
	st := &c12SafeStore{MemoryStore: NewMemoryStore()}
	bus := New(WithStore(st))
	var mu sync.Mutex
	var dels []int
	vAssert(SubscribeWithReplay(context.Background(), bus, "sub", func(e evA) {
		mu.Lock()
		dels = append(dels, e.N)
		mu.Unlock()
	}) == nil, "subscribe-ok")
	var wg sync.WaitGroup
	for g := 0; g < G; g++ {
		wg.Add(1)
		n := g + 1
		go func() {
			defer wg.Done()
			Publish(bus, evA{N: n})
		}()
	}
	wg.Wait()
	vJoinAll()
	vAssert(len(dels) == G, "every-event-delivered-once")
	evs, _, _ := st.Read(context.Background(), OffsetOldest, 0)
	saved, _ := st.LoadOffset(context.Background(), "sub")
	vAssert(len(evs) == G, "all-persisted")
	vAssertK(saved == evs[G-1].Offset, "saved-offset-ends-at-last-event", "KF-C12-concurrent-save-regress", true)
	// the bus's own notion of the last appended offset is exact once publishers are quiescent
	bus.storeMu.RLock()
	last := bus.lastOffset
	bus.storeMu.RUnlock()
	vAssert(last == evs[G-1].Offset, "bus-last-offset-is-last-appended")
	vCover("raced")
}
