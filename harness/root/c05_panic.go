package eventbus

import (
	"context"
	"reflect"
)

// c05Err: an error type whose method dereferences its receiver.
type c05Err struct{ msg string }

func (e *c05Err) Error() string { return e.msg }

type c05Panic struct {
	ev  any
	ht  reflect.Type
	val any
}

//verif:entry property=C05 tier=both bounds="n<=N handlers, each plain or context-aware with arbitrary Once/Async/Sequential flags and a panics flag with symbolic panic value; two publishes (of the event type itself or as interface values), then Wait; panic handler present or nil; observability layer present or not" cover="some-panic,no-panic" N_quick=2 N_thorough=3
func harnessC05Panics() {
	N := vParam("N", 2)
	c01Log, c01Re = nil, nil
	var panics []c05Panic
	withPH := vBool()
	// one of four configurations (not their cross product): 0 plain, 1 with an observability
	// layer, 2 events handed over as interface values, 3 panic handler installed by the setter
	variant := vPick(4)
	var bopts []Option
	if variant == 1 {
		bopts = append(bopts, WithObservability(&c20Obs{})) // recovery must not depend on the observability layer
	}
	var bus *EventBus
	ph := func(ev any, ht reflect.Type, val any) {
		c01Mu.Lock()
		panics = append(panics, c05Panic{ev, ht, val})
		c01Mu.Unlock()
	}
	viaSetter := withPH && variant == 3 // installed with SetPanicHandler after construction instead of the option
	if withPH && !viaSetter {
		bopts = append(bopts, WithPanicHandler(ph))
	}
	if !withPH && variant == 3 {
		bopts = append(bopts, WithPanicHandler(nil)) // explicitly no panic handler
	}
	bus = New(bopts...)
	if viaSetter {
		bus.SetPanicHandler(ph)
	}
	if !withPH && variant == 2 {
		bus.SetPanicHandler(nil)
	}
	n := vInt(1, N)
	type hd struct {
		once, async, seq, ctxAware, panics bool
		pv                                 int
		fired                              bool
	}
	hs := make([]*hd, n)
	var plainT, ctxT reflect.Type
	for i := 0; i < n; i++ {
		h := &hd{once: vBool(), async: vBool(), seq: vBool(), ctxAware: vBool(), panics: vBool()}
		if h.panics {
			h.pv = vInt(1, 9)
		}
		hs[i] = h
		id := i
		var opts []SubscribeOption
		if h.once {
			opts = append(opts, Once())
		}
		if h.async {
			opts = append(opts, Async())
		}
		if h.seq {
			opts = append(opts, Sequential())
		}
		body := func(e evA) {
			c01Rec(0, id, e.N)
			if h.panics {
				panic(h.pv)
			}
		}
		if h.ctxAware {
			f := func(ctx context.Context, e evA) { body(e) }
			ctxT = reflect.TypeOf(ContextHandler[evA](f))
			vAssert(SubscribeContext(bus, f, opts...) == nil, "subscribe-ok")
		} else {
			f := func(e evA) { body(e) }
			plainT = reflect.TypeOf(Handler[evA](f))
			vAssert(Subscribe(bus, f, opts...) == nil, "subscribe-ok")
		}
	}
	anyPanic := false
	viaAny := variant == 2 // the events are handed to Publish as interface values
	for p := 0; p < 2; p++ {
		c01TakeLog()
		panics = nil
		if viaAny {
			Publish[any](bus, evA{N: 10 + p})
		} else {
			Publish(bus, evA{N: 10 + p})
		}
		bus.Wait()
		got := c01TakeLog()
		wantPanics := 0
		for i, h := range hs {
			runs := 0
			for _, g := range got {
				if g.id == i {
					runs++
					vAssert(g.val == 10+p, "handler-got-published-value")
				}
			}
			want := 1
			if h.once && h.fired {
				want = 0
			}
			vAssert(runs == want, "every-handler-still-runs-exactly-once")
			if want == 1 && h.panics {
				wantPanics++
				anyPanic = true
			}
			if h.once {
				h.fired = true
			}
		}
		if withPH {
			vAssert(len(panics) == wantPanics, "panic-handler-once-per-panic")
			for _, pr := range panics {
				e, ok := pr.ev.(evA)
				vAssert(ok && e.N == 10+p, "panic-handler-gets-event")
				vAssert(pr.ht == plainT || pr.ht == ctxT, "panic-handler-gets-handler-type")
				pv, ok2 := pr.val.(int)
				vAssert(ok2 && pv >= 1 && pv <= 9, "panic-handler-gets-panic-value")
			}
		}
	}
	// the bus is still usable: counts agree (once handlers retired, others kept)
	left := 0
	for _, h := range hs {
		if !h.once {
			left++
		}
	}
	cnt, _ := c01Count(bus, 0)
	vAssert(cnt == left, "once-retired-others-kept")
	if anyPanic {
		vCover("some-panic")
	} else {
		vCover("no-panic")
	}
}

//verif:entry property=C05 tier=both bounds="a panicking handler (Once and/or Sequential, sync) followed by an ordinary handler that publishes the same event type once more from inside the delivery; panic handler that may itself publish the event type again (once)" cover="nested-done"
func harnessC05PanicNested() {
	c01Log, c01Re = nil, nil
	once, seq := vBool(), vBool()
	republish := vBool()
	var bus *EventBus
	phCalls, reDone := 0, false
	bus = New(WithPanicHandler(func(ev any, ht reflect.Type, val any) {
		phCalls++
		if republish && !reDone {
			reDone = true
			Publish(bus, evA{N: 99}) // e.g. a dead-letter style re-publication
		}
	}))
	var so []SubscribeOption
	if once {
		so = append(so, Once())
	}
	if seq {
		so = append(so, Sequential())
	}
	h0Runs := 0
	Subscribe(bus, func(e evA) {
		h0Runs++
		c01Rec(0, 0, e.N)
		panic("h0 fails")
	}, so...)
	nested := false
	Subscribe(bus, func(e evA) {
		c01Rec(0, 1, e.N)
		if !nested {
			nested = true
			Publish(bus, evA{N: 77})
		}
	})
	Publish(bus, evA{N: 1})
	log := c01TakeLog()
	got := func(id, val int) int {
		c := 0
		for _, e := range log {
			if e.id == id && e.val == val {
				c++
			}
		}
		return c
	}
	// the ordinary handler receives every published event exactly once
	vAssert(got(1, 1) == 1 && got(1, 77) == 1, "other-handler-receives-every-event")
	if republish {
		vAssert(got(1, 99) == 1, "other-handler-receives-every-event")
	}
	if once {
		vAssert(h0Runs == 1, "panicking-once-handler-stays-retired")
		vAssert(phCalls == 1, "panic-handler-once-per-panic")
		vAssert(HandlerCount[evA](bus) == 1, "once-retired-others-kept")
	} else {
		vAssert(h0Runs == phCalls, "panic-handler-once-per-panic")
		vAssert(got(0, 1) == 1 && got(0, 77) == 1, "panicking-handler-still-receives-later-events")
		vAssert(HandlerCount[evA](bus) == 2, "handlers-kept")
	}
	// still usable
	Publish(bus, evA{N: 5})
	vAssert(got(1, 5) == 0, "log-was-taken")
	vCover("nested-done")
}

//verif:entry property=C05 tier=both bounds="a handler (sync/async, plain/context-aware) that cancels the context of the publish it runs under and then panics, with an ordinary handler behind it; observability present or not; then a second publish with a fresh context" cover="panicked-after-cancel"
func harnessC05PanicAfterCancel() {
	reports := 0
	opts := []Option{WithPanicHandler(func(ev any, ht reflect.Type, val any) {
		c01Mu.Lock()
		reports++
		c01Mu.Unlock()
	})}
	if vBool() {
		opts = append(opts, WithObservability(&c20Obs{}))
	}
	bus := New(opts...)
	var cancelCur context.CancelFunc
	cancels := vBool()
	pvKind := vPick(4) // what the handler panics with: a string, an error, a typed nil error, a struct
	body := func() {
		if cancels && cancelCur != nil {
			cancelCur()
		}
		switch pvKind {
		case 1:
			panic(errInjected)
		case 2:
			var e *c05Err // a nil pointer inside a non-nil error value
			panic(error(e))
		case 3:
			panic(c05Panic{})
		}
		panic("gave up")
	}
	var so []SubscribeOption
	if vBool() {
		so = append(so, Async())
	}
	if vBool() {
		SubscribeContext(bus, func(ctx context.Context, e evA) { body() }, so...)
	} else {
		Subscribe(bus, func(e evA) { body() }, so...)
	}
	later := 0
	Subscribe(bus, func(e evA) { later++ })
	for p := 1; p <= 2; p++ {
		ctx, cancel := context.WithCancel(context.Background())
		cancelCur = cancel
		PublishContext(bus, ctx, evA{N: p})
		bus.Wait()
		cancel()
		c01Mu.Lock()
		vAssert(reports == p, "panic-handler-once-per-panic")
		c01Mu.Unlock()
	}
	if !cancels {
		vAssert(later == 2, "every-handler-still-runs")
	}
	vCover("panicked-after-cancel")
}

//verif:entry property=C05 tier=both bounds="a handler subscribed through SubscribeWithReplay (plain Handler[T]) that panics on a live event (and, symbolically, also on the replayed one), an ordinary handler behind it; the panic handler is told once per panic, with the event, the panic value and the type of the handler the user subscribed; the subscription keeps working" cover="replay-subscriber-panicked"
func harnessC05ReplaySubscriberPanics() {
	type rec struct {
		ev  any
		ht  reflect.Type
		val any
	}
	var reps []rec
	st := NewMemoryStore()
	bus := New(WithStore(st), WithPanicHandler(func(ev any, ht reflect.Type, v any) { reps = append(reps, rec{ev, ht, v}) }))
	pre := vBool()
	if pre {
		Publish(bus, evA{N: 1}) // replayed by the subscription below
	}
	runs, others := 0, 0
	user := func(e evA) {
		runs++
		if e.N >= 2 {
			panic(7)
		}
	}
	vAssert(SubscribeWithReplay(context.Background(), bus, "c05-sub", user) == nil, "subscribe-ok")
	Subscribe(bus, func(e evA) { others++ })
	want := 0
	if pre {
		want = 1
	}
	vAssert(runs == want, "every-handler-still-runs-exactly-once")
	for p := 0; p < 2; p++ {
		Publish(bus, evA{N: 2 + p})
		want++
		vAssert(runs == want && others == p+1, "every-handler-still-runs-exactly-once")
		vAssert(len(reps) == p+1, "panic-handler-once-per-panic")
		r := reps[p]
		e, ok := r.ev.(evA)
		vAssert(ok && e.N == 2+p, "panic-handler-gets-event")
		vAssert(r.ht == reflect.TypeOf(Handler[evA](user)), "panic-handler-gets-handler-type")
		pv, ok2 := r.val.(int)
		vAssert(ok2 && pv == 7, "panic-handler-gets-panic-value")
	}
	vCover("replay-subscriber-panicked")
}

//verif:entry property=C05 tier=both bounds="circuit breaker: a panicking handler (Once or not, sync or async) whose panic handler takes it - or its whole type, or everything - off the bus (Unsubscribe / Clear / ClearAll) while the publish is still running; an ordinary handler behind it; the panic stays contained, the handler behind still gets the event, the bus stays usable (second publish, new subscription)" cover="circuit-breaker"
func harnessC05PanicHandlerRemoves() {
	var bus *EventBus
	var faulty Handler[evA]
	action := vPick(3)
	reports := 0
	bus = New(WithPanicHandler(func(ev any, ht reflect.Type, v any) {
		reports++
		switch action {
		case 0:
			_ = Unsubscribe[evA](bus, faulty)
		case 1:
			Clear[evA](bus)
		case 2:
			ClearAll(bus)
		}
	}))
	faulty = func(e evA) { panic("faulty handler") }
	var so []SubscribeOption
	once, async := vBool(), vBool()
	if once {
		so = append(so, Once())
	}
	if async {
		so = append(so, Async())
	}
	behind := 0
	vAssert(Subscribe(bus, faulty, so...) == nil, "subscribe-ok")
	vAssert(Subscribe(bus, func(e evA) { behind++ }) == nil, "subscribe-ok")
	Publish(bus, evA{N: 1})
	bus.Wait()
	vAssert(behind == 1, "every-handler-still-runs-exactly-once")
	vAssert(reports == 1, "panic-handler-once-per-panic")
	// the bus is fully usable afterwards
	later := 0
	vAssert(Subscribe(bus, func(e evA) { later++ }) == nil, "subscribe-ok")
	Publish(bus, evA{N: 2})
	bus.Wait()
	vAssert(later == 1, "bus-usable-after-panic")
	if action == 0 {
		vAssert(behind == 2 && HandlerCount[evA](bus) == 2, "bus-usable-after-panic")
	} else {
		vAssert(behind == 1 && HandlerCount[evA](bus) == 1, "bus-usable-after-panic")
	}
	vAssert(reports == 1, "panic-handler-once-per-panic")
	vCover("circuit-breaker")
}
