package eventbus

import (
	"context"
	"reflect"
)

type c05Panic struct {
	ev  any
	ht  reflect.Type
	val any
}

//verif:entry property=C05 tier=both bounds="n<=N handlers, each plain or context-aware with arbitrary Once/Async/Sequential flags and a panics flag with symbolic panic value; two publishes, then Wait; panic handler present or nil" cover="some-panic,no-panic" N_quick=2 N_thorough=3
func harnessC05Panics() {
	N := vParam("N", 2)
	c01Log, c01Re = nil, nil
	var panics []c05Panic
	withPH := vBool()
	var bus *EventBus
	if withPH {
		bus = New(WithPanicHandler(func(ev any, ht reflect.Type, val any) {
			c01Mu.Lock()
			panics = append(panics, c05Panic{ev, ht, val})
			c01Mu.Unlock()
		}))
	} else {
		bus = New()
	}
	n := vInt(1, N)
	type hd struct {
		once, async, seq, ctxAware, panics bool
		pv                                  int
		fired                               bool
	}
	hs := make([]*hd, n)
	var plainT, ctxT reflect.Type
	for i := 0; i < n; i++ {
		h := &hd{once: vBool(), async: vBool(), seq: vBool(), ctxAware: vBool(), panics: vBool()}
		if h.panics {
			h.pv = vInt(1, 9)
		}
		hs[i] = h
		id := i
		var opts []SubscribeOption
		if h.once {
			opts = append(opts, Once())
		}
		if h.async {
			opts = append(opts, Async())
		}
		if h.seq {
			opts = append(opts, Sequential())
		}
		body := func(e evA) {
			c01Rec(0, id, e.N)
			if h.panics {
				panic(h.pv)
			}
		}
		if h.ctxAware {
			f := func(ctx context.Context, e evA) { body(e) }
			ctxT = reflect.TypeOf(ContextHandler[evA](f))
			vAssert(SubscribeContext(bus, f, opts...) == nil, "subscribe-ok")
		} else {
			f := func(e evA) { body(e) }
			plainT = reflect.TypeOf(Handler[evA](f))
			vAssert(Subscribe(bus, f, opts...) == nil, "subscribe-ok")
		}
	}
	anyPanic := false
	for p := 0; p < 2; p++ {
		c01TakeLog()
		panics = nil
		Publish(bus, evA{N: 10 + p})
		bus.Wait()
		got := c01TakeLog()
		wantPanics := 0
		for i, h := range hs {
			runs := 0
			for _, g := range got {
				if g.id == i {
					runs++
					vAssert(g.val == 10+p, "handler-got-published-value")
				}
			}
			want := 1
			if h.once && h.fired {
				want = 0
			}
			vAssert(runs == want, "every-handler-still-runs-exactly-once")
			if want == 1 && h.panics {
				wantPanics++
				anyPanic = true
			}
			if h.once {
				h.fired = true
			}
		}
		if withPH {
			vAssert(len(panics) == wantPanics, "panic-handler-once-per-panic")
			for _, pr := range panics {
				e, ok := pr.ev.(evA)
				vAssert(ok && e.N == 10+p, "panic-handler-gets-event")
				vAssert(pr.ht == plainT || pr.ht == ctxT, "panic-handler-gets-handler-type")
				pv, ok2 := pr.val.(int)
				vAssert(ok2 && pv >= 1 && pv <= 9, "panic-handler-gets-panic-value")
			}
		}
	}
	// the bus is still usable: counts agree (once handlers retired, others kept)
	left := 0
	for _, h := range hs {
		if !h.once {
			left++
		}
	}
	cnt, _ := c01Count(bus, 0)
	vAssert(cnt == left, "once-retired-others-kept")
	if anyPanic {
		vCover("some-panic")
	} else {
		vCover("no-panic")
	}
}
