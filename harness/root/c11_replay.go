package eventbus

import (
	"context"
	"encoding/json"
	"errors"
)

// c11Run drives bus.Replay over a store of n events from start index k with
// one injected fault and checks the C11 oracle.
//
//	fault 0 none | 1 callback error at delivery #at | 2 context cancelled before the call
//	      3 callback #at cancels the context | 4 store failure at read/stream position #at
func c11Run(paged bool) {
	N := vParam("N", 3)
	n := vInt(0, N)
	k := vInt(0, n)
	fault := vInt(0, 4)
	at := vInt(0, N)
	b := 0
	if paged {
		b = vInt(-1, N+1)
	}

	mem := NewMemoryStore()
	offs := fillStore(mem, n)
	from := OffsetOldest
	if k > 0 {
		from = offs[k-1]
	}
	m := n - k // events after the start offset

	failAt := -1
	errReadEOFShaped = false
	if fault == 4 {
		failAt = at
		errReadEOFShaped = vBool() // the store's failure also wraps io.EOF
	}
	var store EventStore
	var po *pagedOnly
	var ss *spyStreamer
	if paged {
		po = &pagedOnly{inner: mem, failAt: failAt, chunk: vInt(0, 2)}
		store = po
	} else {
		ss = &spyStreamer{inner: mem, failAt: failAt}
		store = ss
	}
	bus := New(WithStore(store), WithReplayBatchSize(b))
	handlerRuns := 0
	Subscribe(bus, func(e evA) { handlerRuns++ })
	Subscribe(bus, func(e evB) { handlerRuns++ })

	ctx, cancel := context.WithCancel(context.Background())
	defer cancel()
	if fault == 2 {
		cancel()
	}
	var got []Offset
	err := bus.Replay(ctx, from, func(e *StoredEvent) error {
		i := len(got)
		got = append(got, e.Offset)
		if fault == 1 && i == at {
			return errCallback
		}
		if fault == 3 && i == at {
			cancel()
		}
		return nil
	})

	// gap-free prefix of the suffix, in log order, each once
	vAssert(len(got) <= m, "no-extra-delivery")
	for i := 0; i < len(got); i++ {
		vAssert(got[i] == offs[k+i], "prefix-in-order")
	}
	// nil only when everything was delivered
	if err == nil {
		vAssert(len(got) == m, "nil-implies-complete")
		vCover("nil-complete")
	} else {
		vCover("err-prefix")
	}
	switch fault {
	case 0:
		vAssert(err == nil, "no-fault-no-error")
	case 1:
		if at < m {
			vAssert(err != nil, "callback-error-reported")
			vAssert(errors.Is(err, errCallback), "callback-error-wrapped")
			vAssert(len(got) == at+1, "stops-at-callback-error")
		}
	case 2:
		if m > 0 {
			vAssert(err != nil, "precancelled-reported")
			vAssert(len(got) == 0, "precancelled-no-delivery")
		}
	case 3:
		if at < m-1 {
			vAssert(err != nil, "cancel-during-replay-reported")
		}
	case 4:
		injected := (paged && po.injected) || (!paged && ss.injected)
		if injected {
			vAssert(err != nil, "store-error-reported")
			vAssert(errors.Is(err, errInjected), "store-error-wrapped")
		}
	}
	// replay never appends and never runs subscribed handlers
	if paged {
		vAssert(po.appends == 0, "replay-does-not-append")
	} else {
		vAssert(ss.appends == 0, "replay-does-not-append")
	}
	vAssert(len(mem.events) == n, "log-unchanged")
	vAssert(handlerRuns == 0, "handlers-not-invoked")
}

//verif:entry property=C11 tier=both bounds="paged store (pages optionally capped at 1 or 2 events regardless of the limit): log length n<=N, start index k<=n, batch size b in [-1,N+1], one fault of 5 kinds at position at<=N (a store failure may also wrap io.EOF)" cover="nil-complete,err-prefix" N_quick=3 N_thorough=5
func harnessC11Paged() { c11Run(true) }

//verif:entry property=C11 tier=both bounds="streaming memory store: log length n<=N, start index k<=n, one fault of 5 kinds at position at<=N" cover="nil-complete,err-prefix" N_quick=3 N_thorough=6
func harnessC11Stream() { c11Run(false) }

//verif:entry property=C11 tier=both bounds="a log shared by two buses: own<=N events published by the replaying bus itself, then foreign<=N-own events written by a second bus on the same store (paged or streaming); Replay or ReplayWithUpcast (one raw upcaster that fails for a chosen event, error handler installed or not) from oldest or from any issued offset - including exactly the replaying bus's own last offset; complete, gap-free, nil" cover="shared-log-done" N_quick=3 N_thorough=4
func harnessC11SharedLog() {
	N := vParam("N", 3)
	mem := NewMemoryStore()
	var store EventStore = mem
	if vBool() {
		store = &pagedOnly{inner: mem, failAt: -1, chunk: vInt(0, 1)}
	}
	upErrs := 0
	var opts []Option
	opts = append(opts, WithStore(store))
	if vBool() {
		opts = append(opts, WithUpcastErrorHandler(func(t string, d json.RawMessage, err error) { upErrs++ }))
	}
	busA := New(opts...)
	busB := New(WithStore(store))
	own := vInt(0, N)
	foreign := vInt(0, N-own)
	for i := 0; i < own; i++ {
		Publish(busA, evA{N: i})
	}
	for i := 0; i < foreign; i++ {
		Publish(busB, evA{N: 100 + i})
	}
	n := own + foreign
	all, _, rerr := mem.Read(context.Background(), OffsetOldest, 0)
	vAssert(rerr == nil && len(all) == n, "log-holds-every-publish")
	k := vInt(0, n)
	from := OffsetOldest
	if k > 0 {
		from = all[k-1].Offset
	}
	withUpcast := vBool()
	failN := vInt(0, N) // index (in the log) of the event whose upcast fails
	calls := 0
	if withUpcast {
		vAssert(RegisterUpcastFunc(busA, "eventbus.evA", "eventbus.evA.v2", func(d json.RawMessage) (json.RawMessage, string, error) {
			i := calls
			calls++
			if k+i == failN {
				return nil, "", errCallback
			}
			return d, "eventbus.evA.v2", nil
		}) == nil, "register-ok")
	}
	var got []Offset
	cb := func(e *StoredEvent) error {
		got = append(got, e.Offset)
		return nil
	}
	var err error
	if withUpcast {
		err = busA.ReplayWithUpcast(context.Background(), from, cb)
	} else if vBool() {
		// a reader bus whose store option replaced an earlier (default) one: it is the store
		// given last that is replayed
		reader := New(WithStore(NewMemoryStore()), WithStore(store))
		err = reader.Replay(context.Background(), from, cb)
	} else {
		err = busA.Replay(context.Background(), from, cb)
	}
	vAssert(err == nil, "no-fault-no-error")
	vAssert(len(got) == n-k, "nil-implies-complete")
	for i := range got {
		vAssert(got[i] == all[k+i].Offset, "prefix-in-order")
	}
	vCover("shared-log-done")
}
