package eventbus

import (
	"context"
	"reflect"
	"sync"
)

type c06Closer struct {
	*MemoryStore
	mu          sync.Mutex
	closes      int
	doneAtClose int
	finished    *int
	fmu         *sync.Mutex
}

func (c *c06Closer) Close() error {
	c.fmu.Lock()
	f := *c.finished
	c.fmu.Unlock()
	c.mu.Lock()
	c.closes++
	c.doneAtClose = f
	c.mu.Unlock()
	return nil
}

// c06Workload subscribes two async handlers (the first one publishes a
// second-level async event for its first event) and publishes k events.
func c06Workload(bus *EventBus, k int, mu *sync.Mutex, started, finished *int) int {
	Subscribe(bus, func(e evA) {
		mu.Lock()
		*started = *started + 1
		mu.Unlock()
		vYield()
		if e.N == 0 {
			Publish(bus, evB{N: 1})
		}
		mu.Lock()
		*finished = *finished + 1
		mu.Unlock()
	}, Async())
	Subscribe(bus, func(e evB) {
		mu.Lock()
		*started = *started + 1
		mu.Unlock()
		vYield()
		mu.Lock()
		*finished = *finished + 1
		mu.Unlock()
	}, Async())
	for i := 0; i < k; i++ {
		Publish(bus, evA{N: i})
	}
	return k + 1 // k first-level invocations plus one nested
}

//verif:entry property=C06 tier=both bounds="k<=K publishes to an async handler that yields mid-way and publishes one second-level async event; observability layer present or not; every interleaving within the preemption bound; Wait" cover="waited" K_quick=2 K_thorough=2 preempt_quick=2 preempt_thorough=3 race=on
func harnessC06Wait() {
	K := vParam("K", 2)
	var bus *EventBus
	if vBool() {
		bus = New(WithObservability(&c20Obs{})) // an observability layer wraps the publish context
	} else {
		bus = New()
	}
	var mu sync.Mutex
	started, finished := 0, 0
	k := vInt(1, K)
	total := c06Workload(bus, k, &mu, &started, &finished)
	bus.Wait()
	mu.Lock()
	vAssert(started == total && finished == total, "wait-returns-only-after-all-async-work-finished")
	mu.Unlock()
	vJoinAll()
	vCover("waited")
}

//verif:entry property=C06 tier=both bounds="one publish to the async handlers above, optionally followed by ClearAll; Shutdown(ctx) racing with a canceller goroutine; store counts Close" cover="shutdown-nil,shutdown-ctx-error" preempt_quick=2 preempt_thorough=3 race=on
func harnessC06Shutdown() {
	var mu sync.Mutex
	started, finished := 0, 0
	cl := &c06Closer{MemoryStore: NewMemoryStore(), finished: &finished, fmu: &mu}
	bus := New(WithStore(cl))
	total := c06Workload(bus, 1, &mu, &started, &finished)
	cleared := vBool()
	if cleared {
		// the registry is emptied while the asynchronous work is still in flight
		// (second-level events published from then on find no handler)
		ClearAll(bus)
	}
	ctx, cancel := context.WithCancel(context.Background())
	go func() {
		vYield()
		cancel()
	}()
	err := bus.Shutdown(ctx)
	cl.mu.Lock()
	closes, doneAtClose := cl.closes, cl.doneAtClose
	cl.mu.Unlock()
	mu.Lock()
	startedAtReturn, finishedAtReturn := started, finished
	mu.Unlock()
	if err == nil {
		if !cleared {
			vAssert(finishedAtReturn == total, "shutdown-nil-only-after-all-async-work-finished")
			vAssert(doneAtClose == total, "store-closed-only-after-work-finished")
		}
		vAssert(finishedAtReturn == startedAtReturn, "shutdown-nil-only-after-all-async-work-finished")
		vAssert(doneAtClose == finishedAtReturn, "store-closed-only-after-work-finished")
		vAssert(closes == 1, "shutdown-nil-closes-store-exactly-once")
		vCover("shutdown-nil")
	} else {
		vAssert(err == ctx.Err(), "shutdown-returns-context-error")
		vAssert(closes == 0, "shutdown-error-does-not-close-store")
		vCover("shutdown-ctx-error")
	}
	vJoinAll()
	cl.mu.Lock()
	vAssert(cl.closes == closes, "store-not-closed-later")
	cl.mu.Unlock()
	if err == nil {
		// nothing was still waiting to start when Shutdown reported completion
		mu.Lock()
		vAssert(started == startedAtReturn, "shutdown-nil-only-after-all-async-work-finished")
		mu.Unlock()
	}
}

//verif:entry property=C06 tier=both bounds="one publish to TWO async handlers of the same event type (each yields mid-way) with an optional synchronous handler between them; every interleaving within the preemption bound; Wait" cover="waited" preempt_quick=2 preempt_thorough=3 race=on
func harnessC06TwoAsyncSameType() {
	bus := New()
	var mu sync.Mutex
	finished := 0
	h := func(e evA) {
		vYield()
		mu.Lock()
		finished++
		mu.Unlock()
	}
	Subscribe(bus, h, Async())
	if vBool() {
		Subscribe(bus, func(e evA) { vYield() })
	}
	Subscribe(bus, func(e evA) { h(e) }, Async())
	Publish(bus, evA{N: 1})
	bus.Wait()
	mu.Lock()
	vAssert(finished == 2, "wait-returns-only-after-all-async-work-finished")
	mu.Unlock()
	vJoinAll()
	vCover("waited")
}

//verif:entry property=C06 tier=both bounds="Shutdown twice: a first Shutdown whose context is already cancelled returns the context error while an async handler is still running; the handler finishes; new async work is published; a second Shutdown with a live context must again wait for it and close the store exactly once" cover="second-shutdown" preempt_quick=2 preempt_thorough=3 race=on
func harnessC06ShutdownTwice() {
	var mu sync.Mutex
	finished := 0
	cl := &c06Closer{MemoryStore: NewMemoryStore(), finished: &finished, fmu: &mu}
	bus := New(WithStore(cl))
	gate := make(chan struct{})
	Subscribe(bus, func(e evA) {
		if e.N == 0 {
			<-gate
		} else {
			vYield()
		}
		mu.Lock()
		finished++
		mu.Unlock()
	}, Async())
	Publish(bus, evA{N: 0})
	ctx, cancel := context.WithCancel(context.Background())
	cancel()
	err1 := bus.Shutdown(ctx)
	vAssert(err1 != nil, "first-shutdown-reports-context-error")
	cl.mu.Lock()
	vAssert(cl.closes == 0, "shutdown-error-does-not-close-store")
	cl.mu.Unlock()
	close(gate)
	bus.Wait()
	Publish(bus, evA{N: 1})
	err2 := bus.Shutdown(context.Background())
	vAssert(err2 == nil, "second-shutdown-ok")
	mu.Lock()
	vAssert(finished == 2, "shutdown-nil-only-after-all-async-work-finished")
	mu.Unlock()
	cl.mu.Lock()
	vAssert(cl.closes == 1 && cl.doneAtClose == 2, "store-closed-once-after-work-finished")
	cl.mu.Unlock()
	vJoinAll()
	vCover("second-shutdown")
}

//verif:entry property=C06 tier=both bounds="one async handler (plain or context-aware, yields twice) under a publish context that is cancelled by the publisher right after Publish returned, or by the handler itself mid-run, or never; Wait (or Shutdown with a live context) must not return while the invocation is still running" cover="waited" preempt_quick=2 preempt_thorough=3 race=on
func harnessC06CancelledMidRun() {
	var mu sync.Mutex
	started, finished := 0, 0
	cl := &c06Closer{MemoryStore: NewMemoryStore(), finished: &finished, fmu: &mu}
	bus := New(WithStore(cl))
	ctx, cancel := context.WithCancel(context.Background())
	who := vPick(3) // 0 nobody cancels, 1 the publisher after Publish returned, 2 the handler itself
	body := func() {
		mu.Lock()
		started++
		mu.Unlock()
		vYield()
		if who == 2 {
			cancel()
		}
		vYield()
		mu.Lock()
		finished++
		mu.Unlock()
	}
	if vBool() {
		SubscribeContext(bus, func(hc context.Context, e evA) { body() }, Async())
	} else {
		Subscribe(bus, func(e evA) { body() }, Async())
	}
	PublishContext(bus, ctx, evA{N: 1})
	if who == 1 {
		cancel()
	}
	viaShutdown := vBool()
	if viaShutdown {
		vAssert(bus.Shutdown(context.Background()) == nil, "shutdown-nil")
	} else {
		bus.Wait()
	}
	mu.Lock()
	s0, f0 := started, finished
	mu.Unlock()
	vAssert(f0 == s0, "wait-returns-only-after-all-async-work-finished")
	if viaShutdown {
		cl.mu.Lock()
		vAssert(cl.closes == 1 && cl.doneAtClose == f0, "store-closed-only-after-work-finished")
		cl.mu.Unlock()
	}
	cancel() // whatever still waits for the context may go now
	vJoinAll()
	mu.Lock()
	vAssert(started == s0, "wait-returns-only-after-all-async-work-finished")
	mu.Unlock()
	vCover("waited")
}

//verif:entry property=C06 tier=both bounds="two goroutines waiting at once (Wait+Wait, or Wait+Shutdown with a live context) for one async invocation that yields mid-way, a third call to Wait afterwards; every interleaving within the preemption bound; every waiter returns, and only after the invocation has finished" cover="both-returned" preempt_quick=2 preempt_thorough=2 race=on
func harnessC06TwoWaiters() {
	bus := New()
	var mu sync.Mutex
	finished := 0
	Subscribe(bus, func(e evA) {
		vYield()
		mu.Lock()
		finished++
		mu.Unlock()
	}, Async())
	Publish(bus, evA{N: 1})
	second := vBool()
	var wg sync.WaitGroup
	wg.Add(2)
	seen := [2]int{}
	go func() {
		defer wg.Done()
		bus.Wait()
		mu.Lock()
		seen[0] = finished
		mu.Unlock()
	}()
	go func() {
		defer wg.Done()
		if second {
			vAssert(bus.Shutdown(context.Background()) == nil, "shutdown-nil-only-after-all-async-work-finished")
		} else {
			bus.Wait()
		}
		mu.Lock()
		seen[1] = finished
		mu.Unlock()
	}()
	wg.Wait()
	vAssert(seen[0] == 1 && seen[1] == 1, "wait-returns-only-after-all-async-work-finished")
	bus.Wait()
	vJoinAll()
	vCover("both-returned")
}

//verif:entry property=C06 tier=both bounds="a Shutdown that succeeded (nothing in flight), then one publish to an async handler that yields mid-way, then a second Shutdown (live or already cancelled context): it returns nil only after that invocation has finished, the context's error otherwise; every interleaving within the preemption bound" cover="shutdown-after-shutdown" preempt_quick=2 preempt_thorough=3 race=on
func harnessC06ShutdownAfterShutdown() {
	var mu sync.Mutex
	finished := 0
	cl := &c06Closer{MemoryStore: NewMemoryStore(), finished: &finished, fmu: &mu}
	bus := New(WithStore(cl))
	Subscribe(bus, func(e evA) {
		vYield()
		mu.Lock()
		finished++
		mu.Unlock()
	}, Async())
	vAssert(bus.Shutdown(context.Background()) == nil, "first-shutdown-ok")
	Publish(bus, evA{N: 1})
	ctx, cancel := context.WithCancel(context.Background())
	if vBool() {
		cancel()
	}
	defer cancel()
	err := bus.Shutdown(ctx)
	if err == nil {
		mu.Lock()
		vAssert(finished == 1, "shutdown-nil-only-after-all-async-work-finished")
		mu.Unlock()
	}
	bus.Wait()
	vJoinAll()
	vCover("shutdown-after-shutdown")
}

//verif:entry property=C06 tier=both bounds="an async handler that panics; the panic handler (running inside that invocation) yields and publishes one more async event; Wait (or Shutdown with a live context) returns only after the report and the follow-up invocation have finished; every interleaving within the preemption bound" cover="panic-report-waited" preempt_quick=2 preempt_thorough=3 race=on
func harnessC06PanicReportInFlight() {
	var mu sync.Mutex
	reported, followUp := 0, 0
	var bus *EventBus
	bus = New(WithPanicHandler(func(ev any, ht reflect.Type, v any) {
		vYield()
		Publish(bus, evB{N: 1})
		mu.Lock()
		reported++
		mu.Unlock()
	}))
	Subscribe(bus, func(e evA) { panic("boom") }, Async())
	Subscribe(bus, func(e evB) {
		vYield()
		mu.Lock()
		followUp++
		mu.Unlock()
	}, Async())
	Publish(bus, evA{N: 1})
	if vBool() {
		bus.Wait()
	} else {
		vAssert(bus.Shutdown(context.Background()) == nil, "shutdown-ok")
	}
	mu.Lock()
	vAssert(reported == 1 && followUp == 1, "wait-returns-only-after-all-async-work-finished")
	mu.Unlock()
	vJoinAll()
	vCover("panic-report-waited")
}
