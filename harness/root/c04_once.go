package eventbus

import (
	"context"
	"reflect"
	"sync"
)

//verif:entry property=C04 tier=both bounds="one Once handler (sync/async, filter none/reject-negative) plus m<=2 ordinary handlers around it (the one before it may be the very same function, plain or with a rejecting filter); history of H publishes each in {eligible, filter-rejected, already-cancelled context, other type, context cancelled mid-publish by the handler before it}" cover="fired,never-eligible" H_quick=3 H_thorough=4
func harnessC04OnceHistory() {
	H := vParam("H", 3)
	c01Log, c01Re = nil, nil
	bus := New()
	m := &c01Model{}
	before := vInt(0, 1)
	after := vInt(0, 1)
	var cancelNow context.CancelFunc // set for a publish whose first handler cancels the context
	beforeRejects := false
	for i := 0; i < before; i++ {
		if vBool() {
			// the SAME function as the once handler, registered earlier without Once
			r := &c01Reg{id: 0}
			if vBool() {
				r.filter = 2
				beforeRejects = true
			}
			Subscribe(bus, c01HA[0], c01Opts(r, false)...)
			m.subscribe(0, r)
		} else {
			Subscribe(bus, func(e evA) {
				c01Rec(0, 1, e.N)
				if cancelNow != nil {
					cancelNow()
				}
			})
			m.subscribe(0, &c01Reg{id: 1})
		}
	}
	_ = beforeRejects
	sameFn := len(m.regs[0]) > 0 && m.regs[0][0].id == 0
	once := &c01Reg{id: 0, once: true, async: vBool()}
	if vBool() {
		once.filter, once.cut = 3, -1 // accepts N >= 0
	}
	c01AsyncByID[0] = once.async
	vAssert(Subscribe(bus, c01HA[0], c01Opts(once, false)...) == nil, "subscribe-ok")
	m.subscribe(0, once)
	for i := 0; i < after; i++ {
		Subscribe(bus, c01HA[2])
		m.subscribe(0, &c01Reg{id: 2})
	}
	fired := 0
	everEligible := false
	for h := 0; h < H; h++ {
		kind := vInt(0, 4)
		c01TakeLog()
		var want []c01Entry
		switch kind {
		case 0: // eligible
			PublishContext(bus, context.Background(), evA{N: 5})
			want = m.publish(0, 5, true)
			everEligible = true
		case 1: // rejected by the filter when there is one
			PublishContext(bus, context.Background(), evA{N: -5})
			want = m.publish(0, -5, true)
			if once.filter == 0 {
				everEligible = true
			}
		case 2: // context already cancelled, or ended by its deadline
			ctx, cancel := context.WithCancel(context.Background())
			if vBool() {
				cancel()
			} else {
				var stop context.CancelFunc
				ctx, stop = context.WithTimeout(ctx, 0)
				defer stop()
			}
			defer cancel()
			PublishContext(bus, ctx, evA{N: 5})
			want = m.publish(0, 5, false)
		case 3: // another type
			PublishContext(bus, context.Background(), evB{N: 5})
			want = m.publish(1, 5, true)
		case 4: // the first handler cancels the context while the publish is running
			ctx, cancel := context.WithCancel(context.Background())
			first := &c01Reg{id: -1}
			if len(m.regs[0]) > 0 {
				first = m.regs[0][0]
			}
			if first.id != 1 {
				// no cancelling handler in front: an ordinary eligible publish
				cancel = func() {}
				ctx = context.Background()
			}
			cancelNow = cancel
			PublishContext(bus, ctx, evA{N: 5})
			cancelNow = nil
			if first.id == 1 {
				// only the cancelling handler ran; nobody behind it is started or used up
				want = []c01Entry{{0, 1, 5}}
			} else {
				want = m.publish(0, 5, true)
				everEligible = true
			}
			cancel()
		}
		bus.Wait()
		got := c01TakeLog()
		for _, g := range got {
			if g.id == 0 && g.typ == 0 && !sameFn {
				fired++
			}
		}
		vAssert(fired <= 1, "once-at-most-once")
		vAssert(c01SameMultiset(got, want), "deliveries-match-model")
		cnt, _ := c01Count(bus, 0)
		vAssert(cnt == len(m.regs[0]), "once-counted-until-fired-only")
	}
	if sameFn {
		// the log cannot tell the two registrations of one function apart: the
		// per-publish comparison with the model above is the oracle; the model's flag says whether it fired
		vAssert(once.fired == everEligible, "once-exactly-once-when-eligible")
		fired = 0
		if everEligible {
			fired = 1
		}
	}
	if everEligible {
		vAssert(fired == 1, "once-exactly-once-when-eligible")
		vCover("fired")
	} else {
		vAssert(fired == 0, "once-not-fired-without-eligible-event")
		vCover("never-eligible")
	}
}

//verif:entry property=C04 tier=both bounds="Once handler with a value filter (accepts N>0) between two ordinary handlers; G concurrent publishers each publishing one event whose value (accepted or rejected) is symbolic; every interleaving within the preemption bound" cover="raced" G_quick=2 G_thorough=3 preempt_quick=2 preempt_thorough=2 race=on
func harnessC04Concurrent() { c04Concurrent(vParam("G", 2)) }

//verif:entry property=C04 tier=thorough bounds="as above with 2 concurrent publishers and up to 3 preemptions" cover="raced" preempt=3 race=on
func harnessC04ConcurrentDeep() { c04Concurrent(2) }

func c04Concurrent(G int) {
	c01Log, c01Re = nil, nil
	bus := New()
	async := vBool()
	Subscribe(bus, c01HA[1])
	so := []SubscribeOption{Once(), WithFilter(func(e evA) bool { return e.N > 0 })}
	if async {
		so = append(so, Async())
	}
	Subscribe(bus, c01HA[0], so...)
	Subscribe(bus, c01HA[2])
	vals := make([]int, G)
	anyEligible := false
	for g := 0; g < G; g++ {
		vals[g] = 10 + g
		if vBool() {
			vals[g] = -(10 + g) // rejected by the filter
		} else {
			anyEligible = true
		}
	}
	var wg sync.WaitGroup
	for g := 0; g < G; g++ {
		wg.Add(1)
		v := vals[g]
		go func() {
			defer wg.Done()
			Publish(bus, evA{N: v})
		}()
	}
	wg.Wait()
	bus.Wait()
	vJoinAll()
	log := c01TakeLog()
	fired := 0
	for _, e := range log {
		if e.id == 0 {
			fired++
			vAssert(e.val > 0, "once-only-for-accepted-event")
		}
	}
	vAssert(fired <= 1, "once-at-most-once")
	if anyEligible {
		vAssert(fired == 1, "once-exactly-once-when-eligible")
	} else {
		vAssert(fired == 0, "once-not-fired-without-eligible-event")
	}
	// the ordinary handlers around it receive every event exactly once
	for _, id := range []int{1, 2} {
		for _, v := range vals {
			c := 0
			for _, e := range log {
				if e.id == id && e.val == v {
					c++
				}
			}
			vAssert(c == 1, "ordinary-handlers-unaffected")
		}
	}
	cnt := HandlerCount[evA](bus)
	vAssert(cnt == 3-fired, "once-counted-until-fired-only")
	vCover("raced")
}

//verif:entry property=C04 tier=both bounds="chain of one-shots: a Once handler (sync/async) that, when it fires, subscribes the next Once handler, an ordinary handler, or nothing - the next one likewise; P publishes of the type, each through Publish[T] or through Publish[any] with the event as an interface value; after every publish (and Wait) each handler's invocation count and HandlerCount are compared with the reference" cover="chained" P_quick=3 P_thorough=4
func harnessC04Chain() {
	P := vParam("P", 3)
	bus := New()
	type hs struct {
		once       bool
		registered int // index of the publish during which it was subscribed (-1: before the first)
		got        int
	}
	hsT := [3]*hs{{once: true, registered: -1}, nil, nil}
	cur := 0 // index of the publish in progress
	async0 := vBool()
	what0 := vPick(3) // handler 0, when it fires: 0 nothing, 1 subscribes Once handler 1, 2 subscribes ordinary handler 1
	what1 := vPick(3) // handler 1 likewise with handler 2
	var mk func(i int) func(evA)
	mk = func(i int) func(evA) {
		return func(e evA) {
			hsT[i].got++
			w := what0
			if i == 1 {
				w = what1
			}
			if i < 2 && w != 0 && hsT[i+1] == nil {
				hsT[i+1] = &hs{once: w == 1, registered: cur}
				if w == 1 {
					vAssert(Subscribe(bus, mk(i+1), Once()) == nil, "subscribe-ok")
				} else {
					vAssert(Subscribe(bus, mk(i+1)) == nil, "subscribe-ok")
				}
			}
		}
	}
	so := []SubscribeOption{Once()}
	if async0 {
		so = append(so, Async())
	}
	vAssert(Subscribe(bus, mk(0), so...) == nil, "subscribe-ok")
	for cur = 0; cur < P; cur++ {
		if vBool() {
			Publish[any](bus, evA{N: cur})
		} else {
			Publish(bus, evA{N: cur})
		}
		bus.Wait()
		count := 0
		for _, h := range hsT {
			if h == nil {
				continue
			}
			since := cur - h.registered // publishes that began after it was subscribed
			if h.once {
				want := 0
				if since >= 1 {
					want = 1
				}
				vAssert(h.got == want, "once-fires-exactly-once-on-the-first-publish-after-subscription")
				if since < 1 {
					count++
				}
			} else {
				vAssert(h.got == since, "ordinary-handler-gets-every-later-event-once")
				count++
			}
		}
		vAssert(HandlerCount[evA](bus) == count, "once-counted-until-fired-only")
		vAssert(HasHandlers[evA](bus) == (count > 0), "once-counted-until-fired-only")
	}
	vCover("chained")
}

//verif:entry property=C04 tier=both bounds="option values reused: n<=3 handlers subscribed with one and the same Once() option value (optionally also one shared Async() or filter option); two publishes; every handler fires exactly once" cover="shared"
func harnessC04SharedOptionValue() {
	bus := New()
	n := vInt(2, 3)
	opts := []SubscribeOption{Once()}
	rejectFirst := false
	switch vPick(4) {
	case 1:
		opts = append(opts, Async())
	case 2:
		opts = append(opts, WithFilter(func(e evA) bool { return e.N > 0 }))
	case 3:
		// a reusable predicate typed on an interface the event satisfies; it rejects the first event
		opts = append(opts, WithFilter(func(e any) bool { a, ok := e.(evA); return ok && a.N > 1 }))
		rejectFirst = true
	}
	got := make([]int, n)
	for i := 0; i < n; i++ {
		i := i
		vAssert(Subscribe(bus, func(e evA) { c01Mu.Lock(); got[i]++; c01Mu.Unlock() }, opts...) == nil, "subscribe-ok")
	}
	for p := 0; p < 2; p++ {
		Publish(bus, evA{N: 1 + p})
		bus.Wait()
		if rejectFirst && p == 0 {
			for i := 0; i < n; i++ {
				vAssert(got[i] == 0, "filter-rejected-event-does-not-use-it-up")
			}
			vAssert(HandlerCount[evA](bus) == n, "once-counted-until-fired-only")
			continue
		}
		for i := 0; i < n; i++ {
			vAssert(got[i] == 1, "once-exactly-once-when-eligible")
		}
		vAssert(HandlerCount[evA](bus) == 0, "once-counted-until-fired-only")
	}
	vCover("shared")
}

//verif:entry property=C04 tier=both bounds="a synchronous Once handler between m<=1+1 ordinary handlers on a bus with an after-publish hook (plain or context-aware) that queries HandlerCount and may panic (the publisher recovers); two publishes; the fired handler is no longer counted once its publish has run its handlers - neither by the hook, nor after a publish that ended in the hook's panic - and never runs again" cover="hook-saw-count,hook-panicked"
func harnessC04AfterHookView() {
	var bus *EventBus
	seen := -1
	hookPanics := vBool()
	ctxHook := vBool()
	view := func() {
		seen = HandlerCount[evA](bus)
		if hookPanics {
			panic("after-hook failure")
		}
	}
	if ctxHook {
		bus = New(WithAfterPublishContext(func(ctx context.Context, _ reflect.Type, _ any) { view() }))
	} else {
		bus = New(WithAfterPublish(func(_ reflect.Type, _ any) { view() }))
	}
	ordinary := 0
	if vBool() {
		Subscribe(bus, c01HA[1])
		ordinary++
	}
	got := 0
	vAssert(Subscribe(bus, func(e evA) { got++ }, Once()) == nil, "subscribe-ok")
	if vBool() {
		Subscribe(bus, c01HA[2])
		ordinary++
	}
	for p := 0; p < 2; p++ {
		seen = -1
		func() {
			defer func() {
				if r := recover(); r != nil {
					vCover("hook-panicked")
				}
			}()
			if vBool() {
				Publish[any](bus, evA{N: p})
			} else {
				Publish(bus, evA{N: p})
			}
		}()
		vAssert(got == 1, "once-exactly-once-when-eligible")
		vAssert(seen == ordinary, "once-counted-until-fired-only")
		vAssert(HandlerCount[evA](bus) == ordinary, "once-counted-until-fired-only")
		vCover("hook-saw-count")
	}
}
