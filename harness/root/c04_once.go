package eventbus

import "context"

//verif:entry property=C04 tier=both bounds="one Once handler (sync/async, filter none/reject-negative) plus m<=2 ordinary handlers around it; history of H publishes each in {eligible, filter-rejected, already-cancelled context, other type}" cover="fired,never-eligible" H_quick=3 H_thorough=4
func harnessC04OnceHistory() {
	H := vParam("H", 3)
	c01Log, c01Re = nil, nil
	bus := New()
	m := &c01Model{}
	before := vInt(0, 1)
	after := vInt(0, 1)
	for i := 0; i < before; i++ {
		Subscribe(bus, c01HA[1])
		m.subscribe(0, &c01Reg{id: 1})
	}
	once := &c01Reg{id: 0, once: true, async: vBool()}
	if vBool() {
		once.filter, once.cut = 3, -1 // accepts N >= 0
	}
	c01AsyncByID[0] = once.async
	vAssert(Subscribe(bus, c01HA[0], c01Opts(once, false)...) == nil, "subscribe-ok")
	m.subscribe(0, once)
	for i := 0; i < after; i++ {
		Subscribe(bus, c01HA[2])
		m.subscribe(0, &c01Reg{id: 2})
	}
	fired := 0
	everEligible := false
	for h := 0; h < H; h++ {
		kind := vInt(0, 3)
		c01TakeLog()
		var want []c01Entry
		switch kind {
		case 0: // eligible
			PublishContext(bus, context.Background(), evA{N: 5})
			want = m.publish(0, 5, true)
			everEligible = true
		case 1: // rejected by the filter when there is one
			PublishContext(bus, context.Background(), evA{N: -5})
			want = m.publish(0, -5, true)
			if once.filter == 0 {
				everEligible = true
			}
		case 2: // context already cancelled
			ctx, cancel := context.WithCancel(context.Background())
			cancel()
			PublishContext(bus, ctx, evA{N: 5})
			want = m.publish(0, 5, false)
		case 3: // another type
			PublishContext(bus, context.Background(), evB{N: 5})
			want = m.publish(1, 5, true)
		}
		bus.Wait()
		got := c01TakeLog()
		for _, g := range got {
			if g.id == 0 && g.typ == 0 {
				fired++
			}
		}
		vAssert(fired <= 1, "once-at-most-once")
		vAssert(c01SameMultiset(got, want), "deliveries-match-model")
		cnt, _ := c01Count(bus, 0)
		vAssert(cnt == len(m.regs[0]), "once-counted-until-fired-only")
	}
	if everEligible {
		vAssert(fired == 1, "once-exactly-once-when-eligible")
		vCover("fired")
	} else {
		vAssert(fired == 0, "once-not-fired-without-eligible-event")
		vCover("never-eligible")
	}
}
