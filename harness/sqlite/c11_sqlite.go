package sqlite

import (
	"context"
	"errors"

	eventbus "github.com/jilio/ebu"
)

//verif:entry property=C11 tier=both bounds="bus.Replay over the SQLite store through the database/sql model: log length n<=N, start index k<=n, stream batch size b in [0,N+1] (0 = single cursor), one fault: callback error at delivery #at, context cancelled before / by callback #at, or failure of the nth driver operation of one kind (query, row fetch incl. the final one, scan, close)" cover="nil-complete,err-prefix" N_quick=3 N_thorough=4
func harnessC11SqliteReplay() {
	N := vParam("N", 3)
	n := vInt(0, N)
	k := vInt(0, n)
	b := vInt(0, N+1)
	fault := vInt(0, 4)
	at := vInt(0, N)
	st := mustNew("/tmp/gosx-c11-a.db", WithStreamBatchSize(b))
	recs := sqlFill(st, n)
	from := eventbus.OffsetOldest
	if k > 0 {
		from = recs[k-1].off
	}
	m := n - k
	bus := eventbus.New(eventbus.WithStore(st))
	handlerRuns := 0
	eventbus.Subscribe(bus, func(e evS) { handlerRuns++ })
	ctx, cancel := context.WithCancel(bg)
	defer cancel()
	if fault == 2 {
		cancel()
	}
	if fault == 4 {
		// the nth driver operation of one kind (0 exec, 1 query, 2 row fetch, 3 scan, 4 close) fails
		vsqlArmFault(vInt(1, 4), vInt(0, N+1))
	}
	var got []eventbus.Offset
	err := bus.Replay(ctx, from, func(e *eventbus.StoredEvent) error {
		i := len(got)
		got = append(got, e.Offset)
		if fault == 1 && i == at {
			return errCB
		}
		if fault == 3 && i == at {
			cancel()
		}
		return nil
	})
	injected := vsqlDisarm()
	vAssert(len(got) <= m, "no-extra-delivery")
	for i := 0; i < len(got); i++ {
		vAssert(got[i] == recs[k+i].off, "prefix-in-order")
	}
	if err == nil {
		vAssert(len(got) == m, "nil-implies-complete")
		vCover("nil-complete")
	} else {
		vCover("err-prefix")
	}
	switch fault {
	case 0:
		vAssert(err == nil, "no-fault-no-error")
	case 1:
		if at < m {
			vAssert(err != nil && errors.Is(err, errCB) && len(got) == at+1, "callback-error-reported")
		}
	case 2:
		if m > 0 {
			vAssert(err != nil && len(got) == 0, "precancelled-reported")
		}
	case 3:
		if at < m-1 {
			vAssertK(err != nil, "cancel-during-replay-reported", "KF-C11-sqlite-batch-cancel", b > 0)
		}
	case 4:
		if injected && len(got) < m {
			vAssert(err != nil, "driver-failure-reported")
		}
	}
	all, _, rerr := st.Read(bg, eventbus.OffsetOldest, 0)
	vAssert(rerr == nil && len(all) == n, "replay-does-not-append")
	vAssert(handlerRuns == 0, "handlers-not-invoked")
}
