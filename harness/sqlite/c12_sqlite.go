package sqlite

import (
	eventbus "github.com/jilio/ebu"
)

//verif:entry property=C12 tier=both bounds="SQLite store (events + subscription offsets) through the database/sql model, AUTOINCREMENT base position p in [0,200]: every history of H steps out of {publish subscribed type, publish other type, SubscribeWithReplay (once per bus), restart}; no fault; drain restart at the end; exactly-once and log order" cover="drained" H_quick=4 H_thorough=5
func harnessC12SqliteHistory() {
	H := vParam("H", 4)
	st := mustNew("/tmp/gosx-c12-a.db")
	vsqlSetBase(st, vInt(0, 200))
	type del struct{ n, run int }
	var dels []del
	run := 0
	var bus *eventbus.EventBus
	subd := false
	restart := func() {
		bus = eventbus.New(eventbus.WithStore(st))
		run++
		subd = false
	}
	subscribe := func() error {
		subd = true
		return eventbus.SubscribeWithReplay(bg, bus, "sub", func(e evS) { dels = append(dels, del{e.N, run}) })
	}
	restart()
	seq := 0
	var published []int
	for h := 0; h < H; h++ {
		switch vPick(4) {
		case 0:
			seq++
			eventbus.Publish(bus, evS{N: seq})
			published = append(published, seq)
		case 1:
			eventbus.Publish(bus, evT{N: 1})
		case 2:
			if !subd {
				vAssert(subscribe() == nil, "subscribe-ok")
			}
		case 3:
			restart()
		}
	}
	restart()
	vAssert(subscribe() == nil, "drain-subscribe-ok")
	for _, n := range published {
		c := 0
		for _, d := range dels {
			if d.n == n {
				c++
			}
		}
		vAssert(c >= 1, "no-persisted-event-lost")
		vAssert(c == 1, "exactly-once-without-faults")
	}
	for a := 0; a < len(dels); a++ {
		for b := a + 1; b < len(dels); b++ {
			if dels[a].run == dels[b].run {
				vAssert(dels[a].n < dels[b].n, "log-order-within-a-run")
			}
		}
	}
	off, err := st.LoadOffset(bg, "sub")
	vAssert(err == nil, "load-ok")
	if len(published) > 0 {
		vAssert(off != eventbus.OffsetOldest, "position-saved")
	}
	vCover("drained")
}
