package sqlite

import (
	"context"
	"encoding/json"

	eventbus "github.com/jilio/ebu"
)

//verif:entry property=C12 tier=both bounds="SQLite store (events + subscription offsets) through the database/sql model (incl. its connection-pool limit), file-backed (streaming in one query or in batches of one row) or :memory:, AUTOINCREMENT base position p in [0,200]: every history of H steps out of {publish subscribed type, publish other type, SubscribeWithReplay for one of two ids (once per id and bus), restart}; no fault; drain restart at the end and one more restart; exactly-once and log order per id" cover="drained" H_quick=4 H_thorough=5
func harnessC12SqliteHistory() {
	H := vParam("H", 4)
	path := "/tmp/gosx-c12-a.db"
	var sopts []Option
	switch vPick(3) {
	case 1:
		path = ":memory:" // the store configures in-memory databases differently (DSN, pool)
	case 2:
		sopts = append(sopts, WithStreamBatchSize(1)) // the store streams row by row, one query per batch
	}
	st := mustNew(path, sopts...)
	vsqlSetBase(st, vInt(0, 200))
	type del struct{ n, run int }
	ids := [2]string{"sub", "sub-b"}
	var dels [2][]del
	run := 0
	var bus *eventbus.EventBus
	subd := [2]bool{}
	restart := func() {
		bus = eventbus.New(eventbus.WithStore(st))
		run++
		subd = [2]bool{}
	}
	subscribe := func(i int) error {
		subd[i] = true
		return eventbus.SubscribeWithReplay(bg, bus, ids[i], func(e evS) { dels[i] = append(dels[i], del{e.N, run}) })
	}
	restart()
	seq := 0
	var published []int
	for h := 0; h < H; h++ {
		switch vPick(5) {
		case 0:
			seq++
			eventbus.Publish(bus, evS{N: seq})
			published = append(published, seq)
		case 1:
			eventbus.Publish(bus, evT{N: 1})
		case 2, 4:
			i := 0
			if vPick(2) == 1 {
				i = 1 // a second subscription id on the same store progresses independently
			}
			if !subd[i] {
				vAssert(subscribe(i) == nil, "subscribe-ok")
			}
		case 3:
			restart()
		}
	}
	restart()
	vAssert(subscribe(0) == nil && subscribe(1) == nil, "drain-subscribe-ok")
	for i := 0; i < 2; i++ {
		for _, n := range published {
			c := 0
			for _, d := range dels[i] {
				if d.n == n {
					c++
				}
			}
			vAssert(c >= 1, "no-persisted-event-lost")
			vAssert(c == 1, "exactly-once-without-faults")
		}
		for a := 0; a < len(dels[i]); a++ {
			for b := a + 1; b < len(dels[i]); b++ {
				if dels[i][a].run == dels[i][b].run {
					vAssert(dels[i][a].n < dels[i][b].n, "log-order-within-a-run")
				}
			}
		}
		off, err := st.LoadOffset(bg, ids[i])
		vAssert(err == nil, "load-ok")
		if len(published) > 0 {
			vAssert(off != eventbus.OffsetOldest, "position-saved")
		}
	}
	// a further restart finds nothing left to deliver for either id
	before := len(dels[0]) + len(dels[1])
	restart()
	vAssert(subscribe(0) == nil && subscribe(1) == nil, "drain-subscribe-ok")
	vAssert(len(dels[0])+len(dels[1]) == before, "exactly-once-without-faults")
	vCover("drained")
}

// c12SqlStore records what the bus managed to save, so that the oracle can
// judge redeliveries; everything else is the real SQLiteStore.
type c12SqlStore struct {
	*SQLiteStore
	saved []eventbus.Offset // successfully saved offsets of "sub", in call order
}

func (s *c12SqlStore) SaveOffset(ctx context.Context, id string, o eventbus.Offset) error {
	err := s.SQLiteStore.SaveOffset(ctx, id, o)
	if err == nil && id == "sub" {
		s.saved = append(s.saved, o)
	}
	return err
}

//verif:entry property=C12 tier=both bounds="SQLite store through the database/sql model, AUTOINCREMENT base position p in [0,200]: every history of H steps out of {publish subscribed type, publish other type, SubscribeWithReplay (once per bus), restart} with ONE failing driver operation (exec, query, row fetch, scan or close; ordinal <= 4H) armed after the store is opened; healthy drain restart at the end" cover="fault-hit,fault-not-hit" H_quick=3 H_thorough=4
func harnessC12SqliteOneFault() {
	H := vParam("H", 3)
	st := &c12SqlStore{SQLiteStore: mustNew("/tmp/gosx-c12-b.db")}
	vsqlSetBase(st.SQLiteStore, vInt(0, 200))
	type del struct{ n, run, saves int }
	var dels []del
	run := 0
	var bus *eventbus.EventBus
	subd := false
	restart := func() {
		bus = eventbus.New(eventbus.WithStore(st))
		run++
		subd = false
	}
	subscribe := func() error {
		subd = true
		r := run
		return eventbus.SubscribeWithReplay(bg, bus, "sub", func(e evS) {
			if r == run { // a bus of an earlier run is a dead process
				dels = append(dels, del{e.N, run, len(st.saved)})
			}
		})
	}
	restart()
	vsqlArmFault(vInt(0, 4), vInt(0, 4*H))
	seq := 0
	for h := 0; h < H; h++ {
		switch vPick(4) {
		case 0:
			seq++
			eventbus.Publish(bus, evS{N: seq})
		case 1:
			eventbus.Publish(bus, evT{N: 1})
		case 2:
			if !subd {
				_ = subscribe()
			}
		case 3:
			restart()
		}
	}
	hit := vsqlDisarm()
	restart()
	vAssert(subscribe() == nil, "drain-subscribe-ok")
	all, _, err := st.Read(bg, eventbus.OffsetOldest, 0)
	vAssert(err == nil, "log-readable")
	// log index of an offset, and of an evS sequence number
	idxOf := func(o eventbus.Offset) int {
		for i, se := range all {
			if se.Offset == o {
				return i
			}
		}
		return -1
	}
	nIdx := map[int]int{}
	for i, se := range all {
		if se.Type == "sqlite.evS" {
			var e evS
			vAssert(json.Unmarshal(se.Data, &e) == nil, "log-decodes")
			nIdx[e.N] = i
		}
	}
	for n, li := range nIdx {
		c := 0
		for _, d := range dels {
			if d.n == n {
				c++
			}
		}
		vAssert(c >= 1, "no-persisted-event-lost")
		if !hit {
			vAssert(c == 1, "exactly-once-without-faults")
		}
		_ = li
	}
	for a := 0; a < len(dels); a++ {
		for b := a + 1; b < len(dels); b++ {
			ia, oka := nIdx[dels[a].n]
			ib, okb := nIdx[dels[b].n]
			if dels[a].run == dels[b].run && oka && okb {
				vAssert(ia < ib, "log-order-within-a-run")
			}
		}
	}
	// the saved position never moves backwards (judged by log position, not by string order)
	for i := 1; i < len(st.saved); i++ {
		a, b := idxOf(st.saved[i-1]), idxOf(st.saved[i])
		if a >= 0 && b >= 0 {
			vAssert(a <= b, "saved-offset-never-decreases")
		}
	}
	// an event is delivered again only if its position had never been saved
	for b := 0; b < len(dels); b++ {
		ib, ok := nIdx[dels[b].n]
		if !ok {
			continue
		}
		again := false
		for a := 0; a < b; a++ {
			if dels[a].n == dels[b].n {
				again = true
			}
		}
		if again {
			for _, o := range st.saved[:dels[b].saves] {
				if io := idxOf(o); io >= 0 {
					vAssert(io < ib, "redelivery-only-if-position-was-not-saved")
				}
			}
		}
	}
	if hit {
		vCover("fault-hit")
	} else {
		vCover("fault-not-hit")
	}
}
