package sqlite

import (
	"context"
	eventbus "github.com/jilio/ebu"
)

//verif:entry property=C10 tier=both bounds="SQLite store through the database/sql model, inductive step: AUTOINCREMENT base position p in [0,10^6], two appends; offsets compared digit by digit" cover="appended" numstr=off
func harnessC10SqliteOffsetOrder() {
	st := mustNew("/tmp/gosx-c10-a.db")
	p := vInt(0, 1000000)
	vsqlSetBase(st, p)
	o1, err1 := st.Append(bg, &eventbus.Event{Type: "a", Data: []byte(`1`)})
	o2, err2 := st.Append(bg, &eventbus.Event{Type: "b", Data: []byte(`2`)})
	vAssert(err1 == nil && err2 == nil, "append-ok")
	vAssert(o1 != o2, "offset-unique")
	vAssert(o1 != eventbus.OffsetOldest && o2 != eventbus.OffsetOldest, "offset-not-oldest")
	// documented: offsets are lexicographically comparable within one store
	vAssertK(o1 < o2, "offset-order", "KF-C10-sqlite-lexorder", len(o1) != len(o2))
	vCover("appended")
}

//verif:entry property=C10 tier=both bounds="SQLite store through the database/sql model: base position p in [0,1000], log length n<=N, chain of R reads with limits in [-1,N+1], start index k<=n, each resume from next or from any returned event; then ReadStream with and without batching (batch size b in [0,N+1])" cover="chain-done,resumed-from-event" N_quick=3 N_thorough=4 R_quick=2 R_thorough=3
func harnessC10SqliteReadChain() {
	N := vParam("N", 3)
	R := vParam("R", 2)
	b := vInt(0, N+1)
	st := mustNew("/tmp/gosx-c10-b.db", WithStreamBatchSize(b))
	vsqlSetBase(st, vInt(0, 1000))
	n := vInt(0, N)
	recs := sqlFill(st, n)
	k := vInt(0, n)
	from := eventbus.OffsetOldest
	if k > 0 {
		from = recs[k-1].off
	}
	pos := k
	for r := 0; r < R; r++ {
		l := vInt(-1, N+1)
		evs, next, err := st.Read(bg, from, l)
		vAssert(err == nil, "read-ok")
		want := n - pos
		if l > 0 && l < want {
			want = l
		}
		vAssert(len(evs) == want, "read-count")
		for i := 0; i < len(evs); i++ {
			vAssert(sqlSame(evs[i], recs[pos+i]), "read-order-and-content")
		}
		if len(evs) > 0 {
			vAssert(next == evs[len(evs)-1].Offset, "next-is-last-returned")
		}
		if len(evs) > 0 && vBool() {
			j := vInt(0, len(evs)-1)
			from = evs[j].Offset
			pos = pos + j + 1
			vCover("resumed-from-event")
		} else {
			from = next
			pos += len(evs)
		}
	}
	rest, _, err := st.Read(bg, from, 0)
	vAssert(err == nil && len(rest) == n-pos, "tail-complete")
	i := 0
	var kept []*eventbus.StoredEvent // a consumer may hold on to what the stream handed it
	for ev, serr := range st.ReadStream(bg, from) {
		vAssert(serr == nil, "stream-ok")
		vAssert(i < len(rest) && sqlSame(ev, recs[pos+i]), "stream-same-sequence")
		kept = append(kept, ev)
		i++
	}
	vAssert(i == len(rest), "stream-same-length")
	for j, ev := range kept {
		vAssert(sqlSame(ev, recs[pos+j]) && ev.Offset == rest[j].Offset, "streamed-events-stay-what-they-were")
	}
	// the whole log streamed from the start, looked at only after the stream has ended
	var all []*eventbus.StoredEvent
	for ev, serr := range st.ReadStream(bg, eventbus.OffsetOldest) {
		vAssert(serr == nil, "stream-ok")
		all = append(all, ev)
	}
	vAssert(len(all) == n, "stream-same-length")
	for j, ev := range all {
		vAssert(sqlSame(ev, recs[j]), "streamed-events-stay-what-they-were")
	}
	vCover("chain-done")
}

//verif:entry property=C10 tier=both bounds="SQLite store through the database/sql model: 3 SaveOffset calls with arbitrary (SMT string) ids and offsets the store issued (one of them optionally preceded by an attempt under an already ended context), load of an arbitrary id; two stores on different files and two ':memory:' stores" cover="loaded"
func harnessC10SqliteOffsetsAndIsolation() {
	s1 := mustNew("/tmp/gosx-c10-c.db")
	s2 := mustNew("/tmp/gosx-c10-d.db")
	recs := sqlFill(s1, 3)
	ids := []string{vStr("id0"), vStr("id1"), vStr("id2")}
	offs := make([]eventbus.Offset, 3)
	failIdx := vInt(-1, 2)
	for i := range ids {
		offs[i] = recs[vPick(3)].off
		if i == failIdx {
			// a first attempt under a context that has already ended (it cannot have written anything); the
			// caller tries again
			cctx, ccancel := context.WithCancel(bg)
			ccancel()
			_ = s1.SaveOffset(cctx, ids[i], offs[i])
		}
		vAssert(s1.SaveOffset(bg, ids[i], offs[i]) == nil, "save-ok")
	}
	probe := vStr("probe")
	want := eventbus.OffsetOldest
	for i := range ids {
		if ids[i] == probe {
			want = offs[i]
		}
	}
	got, err := s1.LoadOffset(bg, probe)
	vAssert(err == nil && got == want, "load-last-saved-or-oldest")
	got2, err2 := s2.LoadOffset(bg, probe)
	vAssert(err2 == nil && got2 == eventbus.OffsetOldest, "stores-isolated-offsets")
	evs, _, _ := s2.Read(bg, eventbus.OffsetOldest, 0)
	vAssert(len(evs) == 0, "stores-isolated-events")
	// separately created in-memory stores
	m1, e1 := New(":memory:")
	m2, e2 := New(":memory:")
	vAssert(e1 == nil && e2 == nil, "store-opens")
	before, _, _ := m2.Read(bg, eventbus.OffsetOldest, 0)
	m1.Append(bg, &eventbus.Event{Type: "x", Data: []byte(`1`)})
	after, _, _ := m2.Read(bg, eventbus.OffsetOldest, 0)
	vAssert(len(after) == len(before), "memory-stores-isolated-events")
	vCover("loaded")
}

//verif:entry property=C10 tier=both bounds="SQLite store (file or :memory:, stream batch size b in [0,N+1]) through the database/sql model incl. its connection-pool limit: a stream from start index k1 and, while it stands at item #nestAt, a Read from start index k2 and a LoadOffset (store calls while the cursor is open); both see exactly the log" cover="streams-done" N_quick=3 N_thorough=4
func harnessC10SqliteStreamAndRead() {
	N := vParam("N", 3)
	path := "/tmp/gosx-c10-e.db"
	if vBool() {
		path = ":memory:"
	}
	st := mustNew(path, WithStreamBatchSize(vInt(0, N+1)))
	n := vInt(0, N)
	recs := sqlFill(st, n)
	start := func(k int) eventbus.Offset {
		if k > 0 {
			return recs[k-1].off
		}
		return eventbus.OffsetOldest
	}
	k1, k2 := vInt(0, n), vInt(0, n)
	nestAt := vInt(0, N)
	i := 0
	for ev, serr := range st.ReadStream(bg, start(k1)) {
		vAssert(serr == nil, "stream-ok")
		vAssert(k1+i < n && sqlSame(ev, recs[k1+i]), "stream-same-sequence")
		if i == nestAt {
			evs, _, rerr := st.Read(bg, start(k2), 0)
			vAssert(rerr == nil && len(evs) == n-k2, "read-count")
			for j := range evs {
				vAssert(sqlSame(evs[j], recs[k2+j]), "read-order-and-content")
			}
			_, lerr := st.LoadOffset(bg, "nobody")
			vAssert(lerr == nil, "load-ok")
		}
		i++
	}
	vAssert(i == n-k1, "stream-same-length")
	vCover("streams-done")
}
