package sqlite

import (
	eventbus "github.com/jilio/ebu"
	"github.com/jilio/ebu/state"
)

type entQ struct {
	V int `json:"v"`
}

//verif:entry property=C18 tier=both bounds="materializer over the SQLite store (database/sql model), AUTOINCREMENT base position p in [0,200]: M inserts with distinct keys split at any point into two replay sessions, the second resumed from LastOffset" cover="resumed" M_quick=3 M_thorough=4
func harnessC18SqliteResume() {
	M := vParam("M", 3)
	st := mustNew("/tmp/gosx-c18-a.db")
	vsqlSetBase(st, vInt(0, 200))
	bus := eventbus.New(eventbus.WithStore(st))
	m := state.NewMaterializer()
	coll := state.NewTypedCollection[entQ](state.NewMemoryStore[entQ]())
	state.RegisterCollection(m, coll)
	keys := []string{"a", "b", "c", "d"}
	split := vInt(0, M)
	applied := 0
	countApply := func(ev *eventbus.StoredEvent) error {
		applied++
		return m.Apply(ev)
	}
	for i := 0; i < split; i++ {
		msg, err := state.Insert(keys[i], entQ{V: i + 1})
		vAssert(err == nil, "helper-ok")
		eventbus.Publish(bus, *msg)
	}
	vAssert(bus.Replay(bg, eventbus.OffsetOldest, countApply) == nil, "replay-ok")
	for i := split; i < M; i++ {
		msg, err := state.Insert(keys[i], entQ{V: i + 1})
		vAssert(err == nil, "helper-ok")
		eventbus.Publish(bus, *msg)
	}
	vAssert(bus.Replay(bg, m.LastOffset(), countApply) == nil, "replay-ok")
	evs, _, _ := st.Read(bg, eventbus.OffsetOldest, 0)
	vAssert(len(evs) == M, "all-persisted")
	vAssert(applied == M, "two-sessions-apply-each-message-once")
	if M > 0 {
		vAssert(m.LastOffset() == evs[M-1].Offset, "last-offset-is-last-applied-event")
	}
	for i := 0; i < M; i++ {
		v, ok := coll.Get(keys[i])
		vAssert(ok && v.V == i+1, "state-is-fold")
	}
	vCover("resumed")
}
