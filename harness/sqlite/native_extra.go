package sqlite

// Native counterparts of the model knobs used by the SQLite harnesses: the
// real modernc driver behind a database/sql/driver wrapper that fails the
// armed operation, installed through the package's own dbOpener variable.

import (
	"context"
	"database/sql"
	"database/sql/driver"
	"errors"
	"io"
	"os"
	"sync"
)

var vmSQLErr = errors.New("vsql: injected driver failure")

var vsf struct {
	mu    sync.Mutex
	kind  int
	nth   int
	count [5]int
	hit   bool
	once  sync.Once
}

func init() { vsf.kind = -1 }

func vsfInstall() {
	vsf.once.Do(func() {
		db, err := sql.Open("sqlite", ":memory:")
		if err != nil {
			panic(err)
		}
		sql.Register("gosx-faulty", &vsfDriver{inner: db.Driver()})
		db.Close()
		dbOpener = func(name, dsn string) (*sql.DB, error) { return sql.Open("gosx-faulty", dsn) }
	})
}

func vsqlArmFault(kind, nth int) {
	vsfInstall()
	vsf.mu.Lock()
	vsf.kind, vsf.nth, vsf.count, vsf.hit = kind, nth, [5]int{}, false
	vsf.mu.Unlock()
}

func vsqlDisarm() bool {
	vsf.mu.Lock()
	defer vsf.mu.Unlock()
	vsf.kind = -1
	return vsf.hit
}

func vsfFault(kind int) bool {
	vsf.mu.Lock()
	defer vsf.mu.Unlock()
	i := vsf.count[kind]
	vsf.count[kind]++
	if kind == vsf.kind && i == vsf.nth {
		vsf.hit = true
		return true
	}
	return false
}

type vsfDriver struct{ inner driver.Driver }

func (d *vsfDriver) Open(name string) (driver.Conn, error) {
	c, err := d.inner.Open(name)
	if err != nil {
		return nil, err
	}
	return &vsfConn{c}, nil
}

type vsfConn struct{ driver.Conn }

func (c *vsfConn) PrepareContext(ctx context.Context, q string) (driver.Stmt, error) {
	var st driver.Stmt
	var err error
	if p, ok := c.Conn.(driver.ConnPrepareContext); ok {
		st, err = p.PrepareContext(ctx, q)
	} else {
		st, err = c.Conn.Prepare(q)
	}
	if err != nil {
		return nil, err
	}
	return &vsfStmt{st}, nil
}

func (c *vsfConn) Prepare(q string) (driver.Stmt, error) {
	return c.PrepareContext(context.Background(), q)
}

func (c *vsfConn) BeginTx(ctx context.Context, opts driver.TxOptions) (driver.Tx, error) {
	if b, ok := c.Conn.(driver.ConnBeginTx); ok {
		return b.BeginTx(ctx, opts)
	}
	return c.Conn.Begin()
}

func isDML(q string) bool {
	return len(q) >= 6 && (q[:6] == "INSERT" || q[:6] == "insert")
}

func (c *vsfConn) ExecContext(ctx context.Context, q string, args []driver.NamedValue) (driver.Result, error) {
	if isDML(q) && vsfFault(0) {
		return nil, vmSQLErr
	}
	if e, ok := c.Conn.(driver.ExecerContext); ok {
		return e.ExecContext(ctx, q, args)
	}
	return nil, driver.ErrSkip
}

func (c *vsfConn) QueryContext(ctx context.Context, q string, args []driver.NamedValue) (driver.Rows, error) {
	if vsfFault(1) {
		return nil, vmSQLErr
	}
	if e, ok := c.Conn.(driver.QueryerContext); ok {
		r, err := e.QueryContext(ctx, q, args)
		if err != nil {
			return nil, err
		}
		return &vsfRows{Rows: r}, nil
	}
	return nil, driver.ErrSkip
}

type vsfStmt struct{ driver.Stmt }

func (s *vsfStmt) ExecContext(ctx context.Context, args []driver.NamedValue) (driver.Result, error) {
	if vsfFault(0) {
		return nil, vmSQLErr
	}
	return s.Stmt.(driver.StmtExecContext).ExecContext(ctx, args)
}

func (s *vsfStmt) QueryContext(ctx context.Context, args []driver.NamedValue) (driver.Rows, error) {
	if vsfFault(1) {
		return nil, vmSQLErr
	}
	r, err := s.Stmt.(driver.StmtQueryContext).QueryContext(ctx, args)
	if err != nil {
		return nil, err
	}
	return &vsfRows{Rows: r}, nil
}

type vsfRows struct {
	driver.Rows
	closed bool
}

// eventRows: is this the result set of an event query (four columns)? Row fetches and closes are
// fallible operations of those only, as in the model; single-value queries (QueryRow) fail as a whole.
func (r *vsfRows) eventRows() bool { return len(r.Rows.Columns()) == 4 }

func (r *vsfRows) Next(dest []driver.Value) error {
	if r.eventRows() && vsfFault(2) {
		return vmSQLErr
	}
	err := r.Rows.Next(dest)
	if err == io.EOF {
		return err
	}
	if err == nil && len(dest) == 4 && vsfFault(3) {
		// a scan failure cannot be returned by a driver: hand database/sql a position value it
		// cannot convert into the int64 the store scans into (event rows only, as in the model)
		dest[0] = "vsql: injected unscannable value"
	}
	return err
}

func (r *vsfRows) Close() error {
	already := r.closed
	r.closed = true
	err := r.Rows.Close()
	if !already && r.eventRows() && vsfFault(4) {
		return vmSQLErr
	}
	return err
}

// vsqlSetBase makes the next appended event get position p+1, through SQLite's
// own AUTOINCREMENT bookkeeping.
func vsqlSetBase(s *SQLiteStore, p int) {
	if p <= 0 {
		return
	}
	if _, err := s.db.Exec("INSERT INTO sqlite_sequence (name, seq) VALUES ('events', ?)", p); err != nil {
		panic(err)
	}
}

func vsqlFresh(path string) string {
	vsfInstall()
	os.Remove(path)
	os.Remove(path + "-wal")
	os.Remove(path + "-shm")
	return path
}
