package sqlite

import (
	"context"
	"errors"
	"time"

	eventbus "github.com/jilio/ebu"
)

var bg = context.Background()

var errCB = errors.New("verif: callback failure")

type evS struct {
	N int `json:"n"`
}

type evT struct {
	N int `json:"n"`
}

// sqlObs is a logger and metrics hook that only counts: installing it must not change what the store does.
type sqlObs struct{ logs, appends, reads, saves, loads int }

func (o *sqlObs) Debug(msg string, args ...any)                { o.logs++ }
func (o *sqlObs) Info(msg string, args ...any)                 { o.logs++ }
func (o *sqlObs) Error(msg string, args ...any)                { o.logs++ }
func (o *sqlObs) OnAppend(d time.Duration, err error)          { o.appends++ }
func (o *sqlObs) OnRead(d time.Duration, count int, err error) { o.reads++ }
func (o *sqlObs) OnSaveOffset(d time.Duration, err error)      { o.saves++ }
func (o *sqlObs) OnLoadOffset(d time.Duration, err error)      { o.loads++ }

func mustNew(path string, opts ...Option) *SQLiteStore {
	if vBool() {
		// the optional observers and tuning knobs are on: same behaviour expected
		o := &sqlObs{}
		opts = append(opts, WithLogger(o), WithMetricsHook(o), WithBusyTimeout(time.Second), WithAutoMigrate(true))
	}
	st, err := New(vsqlFresh(path), opts...)
	vAssert(err == nil && st != nil, "store-opens")
	return st
}

type sqlRec struct {
	typ  string
	data []byte
	ts   time.Time
	off  eventbus.Offset
}

func sqlFill(st *SQLiteStore, n int) []sqlRec {
	recs := make([]sqlRec, 0, n)
	for i := 0; i < n; i++ {
		r := sqlRec{typ: vStr("type"), data: []byte{'0' + byte(i)}, ts: time.Unix(int64(1000+i), 0).UTC()}
		if i == 0 && vBool() {
			r.ts = time.Time{} // the zero time is a valid timestamp too
		}
		o, err := st.Append(bg, &eventbus.Event{Type: r.typ, Data: r.data, Timestamp: r.ts})
		vAssert(err == nil, "append-ok")
		r.off = o
		recs = append(recs, r)
	}
	return recs
}

func sqlSame(e *eventbus.StoredEvent, r sqlRec) bool {
	return e.Offset == r.off && e.Type == r.typ && string(e.Data) == string(r.data) && e.Timestamp.Equal(r.ts)
}
