package sqlite

import (
	eventbus "github.com/jilio/ebu"
)

//verif:entry property=C03 tier=both bounds="SQLite store through the database/sql model incl. its connection-pool limit, file-backed or :memory:, stream batch size b in [0,2]: n<=2 stored events; a Replay / SubscribeWithReplay whose callback calls back into the same store (SaveOffset, LoadOffset) or publishes on the same bus while the store's cursor is open; the call must come back (deadlock detector)" cover="came-back"
func harnessC03SqliteReentrant() {
	path := "/tmp/gosx-c03-a.db"
	if vBool() {
		path = ":memory:"
	}
	st := mustNew(path, WithStreamBatchSize(vInt(0, 2)))
	n := vInt(1, 2)
	bus := eventbus.New(eventbus.WithStore(st))
	for i := 0; i < n; i++ {
		eventbus.Publish(bus, evS{N: i + 1})
	}
	op := vPick(3)
	seen := 0
	switch op {
	case 0, 1:
		err := bus.Replay(bg, eventbus.OffsetOldest, func(e *eventbus.StoredEvent) error {
			seen++
			if op == 0 {
				return st.SaveOffset(bg, "sub", e.Offset)
			}
			_, err := st.LoadOffset(bg, "sub")
			return err
		})
		vAssert(err == nil, "reentrant-store-call-succeeds")
	case 2:
		err := eventbus.SubscribeWithReplay(bg, bus, "sub", func(e evS) { seen++ })
		vAssert(err == nil, "subscribe-with-replay-succeeds")
	}
	vAssert(seen == n, "every-stored-event-delivered")
	vCover("came-back")
}
