package sqlite

import (
	eventbus "github.com/jilio/ebu"
	"github.com/jilio/ebu/state"
)

type entR struct {
	V int    `json:"v"`
	S string `json:"s,omitempty"`
}

//verif:entry property=C19 tier=both bounds="round trip through the SQLite store (database/sql model), AUTOINCREMENT base position p in [0,200]: an insert and an update of two keys (symbolic values and key text) built by the helper constructors, published, stored, replayed into a materializer; every message reaches it with the same type, key, operation and value" cover="round-trip"
func harnessC19SqliteRoundTrip() {
	st := mustNew("/tmp/gosx-c19-a.db")
	vsqlSetBase(st, vInt(0, 200))
	bus := eventbus.New(eventbus.WithStore(st))
	m := state.NewMaterializer()
	coll := state.NewTypedCollection[entR](state.NewMemoryStore[entR]())
	state.RegisterCollection(m, coll)
	k1, k2 := vStr("key"), vStr("key")
	vAssume(k1 != "" && k2 != "" && k1 != k2)
	e1 := entR{V: vInt(-9, 9), S: vStr("s")}
	e2 := entR{V: vInt(-9, 9)}
	e3 := entR{V: vInt(-9, 9), S: "later"}
	msgs := []func() (*state.ChangeMessage, error){
		func() (*state.ChangeMessage, error) { return state.Insert(k1, e1) },
		func() (*state.ChangeMessage, error) { return state.Insert(k2, e2) },
		func() (*state.ChangeMessage, error) { return state.Update(k1, e3) },
	}
	for _, mk := range msgs {
		msg, err := mk()
		vAssert(err == nil && msg != nil, "helper-ok")
		eventbus.Publish(bus, *msg)
	}
	applied := 0
	vAssert(bus.Replay(bg, eventbus.OffsetOldest, func(ev *eventbus.StoredEvent) error {
		applied++
		return m.Apply(ev)
	}) == nil, "replay-ok")
	vAssert(applied == 3, "every-message-reaches-the-materializer")
	g1, ok1 := coll.Get(k1)
	g2, ok2 := coll.Get(k2)
	vAssert(ok1 && g1 == e3, "materialized-entity-equals-original")
	vAssert(ok2 && g2 == e2, "materialized-entity-equals-original")
	vAssert(len(coll.All()) == 2, "materialized-entity-equals-original")
	vCover("round-trip")
}
