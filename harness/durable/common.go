package durablestream

import (
	"context"
	"encoding/json"
	"time"

	eventbus "github.com/jilio/ebu"
)

var bg = context.Background()

type evD struct {
	N int `json:"n"`
}

func jsonOK(data []byte, v any) bool { return json.Unmarshal(data, v) == nil }

type dsRec struct {
	typ  string
	data []byte
	ts   time.Time
}

func dsFill(st *Store, n int) []dsRec {
	recs := make([]dsRec, 0, n)
	for i := 0; i < n; i++ {
		r := dsRec{typ: vStr("type"), data: []byte{'0' + byte(i)}, ts: time.Unix(int64(1000+i), 0).UTC()}
		_, err := st.Append(bg, &eventbus.Event{Type: r.typ, Data: r.data, Timestamp: r.ts})
		vAssert(err == nil, "append-ok")
		recs = append(recs, r)
	}
	return recs
}

func dsSame(e *eventbus.StoredEvent, r dsRec) bool {
	return e.Type == r.typ && string(e.Data) == string(r.data) && e.Timestamp.Equal(r.ts)
}

type dsLog struct{ n int }

func (l *dsLog) Printf(format string, v ...any) { l.n++ }

// dsOpts: the store's optional knobs (request timeout, logger, explicit content type) on or off.
func dsOpts() []Option {
	if vBool() {
		return []Option{WithTimeout(5 * time.Second), WithLogger(&dsLog{}), WithContentType("application/json")}
	}
	return nil
}
