package durablestream

import (
	"context"

	eventbus "github.com/jilio/ebu"
)

// c12Subs keeps subscription offsets (the durable-streams store has none of its own, so a bus on it is
// given a subscription store); after the process has "died" nothing is written any more.
type c12Subs struct {
	inner *eventbus.MemoryStore
	saves int
	dieAt int // the process dies right after this many saves (-1: never)
	dead  bool
}

func (s *c12Subs) SaveOffset(ctx context.Context, id string, o eventbus.Offset) error {
	if s.dead {
		return nil
	}
	prev, _ := s.inner.LoadOffset(ctx, id)
	_ = prev
	err := s.inner.SaveOffset(ctx, id, o)
	s.saves++
	if s.saves == s.dieAt {
		s.dead = true
	}
	return err
}

func (s *c12Subs) LoadOffset(ctx context.Context, id string) (eventbus.Offset, error) {
	return s.inner.LoadOffset(ctx, id)
}

//verif:entry property=C12 tier=both bounds="durable-streams store (real client library over the model server, lenient or strict about offsets it did not issue) with a separate subscription store: n<=N events published, SubscribeWithReplay in a process that dies right after its d-th offset save (or not at all), then a restart with the same id, one more event and a drain restart; every event delivered at least once over all runs, and a second time only if its position had not been saved" cover="durable-resumed" conformance=off N_quick=3 N_thorough=4
func harnessC12DurableResume() {
	N := vParam("N", 3)
	vmDSChunked = false
	vmDSStrict = vBool()
	st, err := New(vdsServer("c12"), "s")
	vAssert(err == nil, "store-opens")
	subs := &c12Subs{inner: eventbus.NewMemoryStore(), dieAt: -1}
	n := vInt(1, N)
	d := vInt(0, n) // 0: the process does not die
	if d > 0 {
		subs.dieAt = d
	}
	writer := eventbus.New(eventbus.WithStore(st))
	for i := 0; i < n; i++ {
		eventbus.Publish(writer, evD{N: i + 1})
	}
	counts := map[int]int{}
	run := func() (*eventbus.EventBus, error) {
		bus := eventbus.New(eventbus.WithStore(st), eventbus.WithSubscriptionStore(subs))
		err := eventbus.SubscribeWithReplay(bg, bus, "sub", func(e evD) {
			if subs.dead {
				return // the process is gone: nothing is observed any more
			}
			counts[e.N]++
		})
		return bus, err
	}
	_, err1 := run()
	vAssert(err1 == nil, "subscribe-ok")
	savedByFirstRun := subs.saves // positions 1..savedByFirstRun of the log were saved
	// restart
	subs.dead, subs.dieAt = false, -1
	bus2, err2 := run()
	if err2 == nil {
		eventbus.Publish(bus2, evD{N: n + 1})
	}
	// drain restart
	_, err3 := run()
	lost := false
	for i := 1; i <= n; i++ {
		if counts[i] == 0 {
			lost = true
		}
		if counts[i] > 1 {
			vAssert(i > savedByFirstRun, "redelivery-only-if-position-was-not-saved")
		}
	}
	if err2 == nil && err3 == nil {
		// a subscription that reports success has not skipped anything (a strict server refuses the synthetic
		// per-event offset the interrupted replay saved, and the subscription says so instead)
		vAssertK(!lost, "no-event-lost", "KF-C12-durable-resume-from-event-offset", !vmDSStrict && d > 0 && d < n)
	}
	vCover("durable-resumed")
}
