package durablestream

import (
	"context"
	"encoding/json"
	"reflect"

	eventbus "github.com/jilio/ebu"
)

//verif:entry property=C09 tier=both bounds="bus on the durable-streams store (real client library over the model server): K publishes through PublishContext, each with its own context that is cancelled right after that publish has returned (or, symbolically, kept alive); optionally the acknowledgement of one append is lost (the server carried it out and a gateway answered 502); one record per publish, in order, decoding to the published value; a persistence error only for the lost acknowledgement" cover="published" K_quick=3 K_thorough=4
func harnessC09DurablePublishes() {
	K := vParam("K", 3)
	st, err := New(vdsServer("c09"), "s", dsOpts()...)
	vAssert(err == nil, "store-opens")
	reported := 0
	bus := eventbus.New(eventbus.WithStore(st), eventbus.WithPersistenceErrorHandler(func(ev any, t reflect.Type, err error) { reported++ }))
	lost := vInt(-1, K-1) // the acknowledgement of this append is lost on the way back (the server has carried it out)
	vmDSLostAck = -1
	if lost >= 0 {
		vmDSLostAck = vmDSAppends + lost
	}
	for i := 0; i < K; i++ {
		ctx, cancel := context.WithCancel(bg)
		eventbus.PublishContext(bus, ctx, evD{N: i + 1})
		if vBool() {
			cancel() // the request that carried this publish is over
		}
		defer cancel()
	}
	evs, _, rerr := st.Read(bg, eventbus.OffsetOldest, 0)
	vAssert(rerr == nil, "log-readable")
	vAssert(len(evs) == K, "exactly-one-record-per-publish")
	for i := range evs {
		var d evD
		vAssert(json.Unmarshal(evs[i].Data, &d) == nil && d.N == i+1, "record-decodes-to-published-value")
		vAssert(evs[i].Type == eventbus.EventType(evD{}), "record-type-is-EventType")
	}
	vmDSLostAck = -1
	if lost < 0 {
		vAssert(reported == 0, "no-persistence-error-reported")
	} else {
		vAssert(reported == 1, "lost-acknowledgement-reported-once")
	}
	vCover("published")
}
