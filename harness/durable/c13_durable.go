package durablestream

import (
	"context"
	"reflect"

	eventbus "github.com/jilio/ebu"
)

//verif:entry property=C13 tier=both bounds="bus on the durable-streams store (real client library over the model server): K publishes (optionally each under its own context, cancelled after the publish returned), the server answers one chosen append request with 503 (or none), optionally after another writer's message has landed on the stream; delivery unaffected, that failure reported exactly once, the rejected event not in the log, the others in order" cover="rejected,all-ok" K_quick=3 K_thorough=4
func harnessC13DurableRejectedAppend() {
	K := vParam("K", 3)
	st, err := New(vdsServer("c13"), "s", dsOpts()...)
	vAssert(err == nil, "store-opens")
	var reported []int
	bus := eventbus.New(eventbus.WithStore(st), eventbus.WithPersistenceErrorHandler(func(ev any, t reflect.Type, err error) {
		e, ok := ev.(evD)
		vAssert(ok && err != nil && t == reflect.TypeOf(evD{}), "report-has-event")
		reported = append(reported, e.N)
	}))
	delivered := 0
	eventbus.Subscribe(bus, func(e evD) { delivered++ })
	failAt := vInt(-1, K-1)
	vmDSAppends = 0
	vmDSFailAppend = failAt
	vmDSForeign = vBool() // the stream has a second writer, whose message lands right before the rejected append
	perRequest := vBool() // every publish under its own context, cancelled once the publish has returned
	for i := 0; i < K; i++ {
		if perRequest {
			ctx, cancel := context.WithCancel(bg)
			eventbus.PublishContext(bus, ctx, evD{N: i + 1})
			cancel()
		} else {
			eventbus.Publish(bus, evD{N: i + 1})
		}
	}
	vmDSFailAppend = -1
	foreign := vmDSForeign
	vmDSForeign = false
	vAssert(delivered == K, "all-handlers-still-run")
	all, _, rerr := st.Read(bg, eventbus.OffsetOldest, 0)
	vAssert(rerr == nil, "log-readable")
	var evs []*eventbus.StoredEvent
	nForeign := 0
	for _, e := range all {
		if e.Type == "foreign" {
			nForeign++
		} else {
			evs = append(evs, e)
		}
	}
	if foreign && failAt >= 0 {
		vAssert(nForeign == 1, "other-writers-message-kept")
	} else {
		vAssert(nForeign == 0, "other-writers-message-kept")
	}
	var want []int
	for i := 0; i < K; i++ {
		if i != failAt {
			want = append(want, i+1)
		}
	}
	vAssert(len(evs) == len(want), "log-holds-exactly-the-successes")
	for i := range evs {
		if i < len(want) {
			var d evD
			vAssert(jsonOK(evs[i].Data, &d) && d.N == want[i], "log-holds-exactly-the-successes")
		}
	}
	if failAt >= 0 {
		vAssert(len(reported) == 1 && reported[0] == failAt+1, "each-failure-reported-once")
		vCover("rejected")
	} else {
		vAssert(len(reported) == 0, "each-failure-reported-once")
		vCover("all-ok")
	}
}
