package durablestream

// Native counterparts of the durable-streams model knobs: the library's own
// handler over its in-memory storage behind httptest.

import (
	"io"
	"net/http"
	"net/http/httptest"
	"regexp"
	"strings"

	dsl "github.com/ahimsalabs/durable-streams-go/durablestream"
	"github.com/ahimsalabs/durable-streams-go/durablestream/memorystorage"
)

var (
	vmDSFailRead = -1
	vmDSReads    = 0
	vmDSChunked  = false
	vmDSStrict   = false

	vmDSFailAppend = -1 // index of the append request answered with 503
	vmDSAppends    = 0
	vmDSForeign    = false // another writer appends one message right before the rejected append arrives
	vmDSLostAck    = -1    // index of the append request that is carried out but answered with 502
)

var vdsIssued = regexp.MustCompile(`^([0-9]{10}|-1|)$`)

// vdsServer starts a fresh durable-streams server and returns its base URL.
func vdsServer(name string) string {
	handler := dsl.NewHandler(memorystorage.New(), nil)
	mux := http.NewServeMux()
	mux.Handle("/v1/stream/", http.StripPrefix("/v1/stream/", http.HandlerFunc(func(w http.ResponseWriter, r *http.Request) {
		// a strict server: offsets it did not issue are a bad request
		if vmDSStrict && !vdsIssued.MatchString(r.URL.Query().Get("offset")) {
			http.Error(w, "invalid offset", http.StatusBadRequest)
			return
		}
		if r.Method == http.MethodPost {
			i := vmDSAppends
			vmDSAppends++
			if i == vmDSFailAppend {
				if vmDSForeign {
					other := r.Clone(r.Context())
					other.Body = io.NopCloser(strings.NewReader(`{"type":"foreign","data":{"n":0}}`))
					other.ContentLength = -1
					other.Header.Del("Stream-Seq")
					handler.ServeHTTP(httptest.NewRecorder(), other)
				}
				http.Error(w, "service unavailable", http.StatusServiceUnavailable)
				return
			}
			if i == vmDSLostAck {
				// a gateway in front of the server: the request goes through, the answer is lost
				handler.ServeHTTP(httptest.NewRecorder(), r)
				http.Error(w, "bad gateway", http.StatusBadGateway)
				return
			}
		}
		handler.ServeHTTP(w, r)
	})))
	srv := httptest.NewServer(mux)
	return srv.URL + "/v1/stream"
}
