package durablestream

import (
	"context"
	"strconv"
	"time"

	eventbus "github.com/jilio/ebu"
)

//verif:entry property=C10 tier=both bounds="durable-streams store over the real client library and a model server (optionally cutting read responses short): log length n<=N, chain of R reads with limits in [-1,N+1], each resumed from the returned next offset, then one read resumed from the offset of any returned event (strict or lenient server); offsets returned by Append increase" cover="chain-done,resumed-from-event" conformance=off N_quick=3 N_thorough=4 R_quick=2 R_thorough=3
func harnessC10DurableReadChain() {
	N := vParam("N", 3)
	R := vParam("R", 2)
	vmDSChunked = vBool()
	vmDSStrict = vBool()
	// drawn before any read (the model server draws its own choices while it answers)
	resumeAt := vInt(0, N-1)
	st, err := New(vdsServer("c10"), "s", dsOpts()...)
	vAssert(err == nil, "store-opens")
	n := vInt(0, N)
	perCall := vBool()
	zeroAt := vInt(-1, N-1) // this event carries the zero time
	var offs []eventbus.Offset
	recs := make([]dsRec, 0, n)
	for i := 0; i < n; i++ {
		r := dsRec{typ: vStr("type"), data: []byte{'0' + byte(i)}, ts: time.Unix(int64(1000+i), 0).UTC()}
		if i == zeroAt {
			r.ts = time.Time{} // an event without a timestamp is a valid event too
		}
		actx, acancel := context.WithCancel(bg)
		o, aerr := st.Append(actx, &eventbus.Event{Type: r.typ, Data: r.data, Timestamp: r.ts})
		if perCall {
			acancel() // every call under its own context, ended once the call has returned
		}
		defer acancel()
		vAssert(aerr == nil, "append-ok")
		if i > 0 {
			vAssert(offs[i-1] < o, "offset-order")
		}
		offs = append(offs, o)
		recs = append(recs, r)
	}
	from := eventbus.OffsetOldest
	pos := 0
	for r := 0; r < R; r++ {
		l := vInt(-1, N+1)
		evs, next, rerr := st.Read(bg, from, l)
		vAssert(rerr == nil, "read-ok")
		vAssert(len(evs) <= n-pos, "read-count-at-most-remaining")
		if l > 0 {
			vAssert(len(evs) <= l, "read-respects-limit")
		}
		for i := 0; i < len(evs); i++ {
			vAssert(dsSame(evs[i], recs[pos+i]), "read-order-and-content")
		}
		// resuming from next must continue exactly behind what was returned
		from = next
		pos += len(evs)
		if pos < n {
			more, _, merr := st.Read(bg, from, 0)
			vAssert(merr == nil, "read-ok")
			vAssertK(len(more) > 0 && dsSame(more[0], recs[pos]), "resume-from-next-has-no-gap", "KF-C10-durable-limit-skips", l > 0)
		}
	}
	// resumed from the offset one of the returned events carries: exactly what lies behind that event, or an
	// error (a strict server refuses the synthetic per-event offsets; a lenient one answers from the end of that
	// response - part of the recorded finding)
	all, _, aerr := st.Read(bg, eventbus.OffsetOldest, 0)
	if aerr == nil && len(all) == n && resumeAt < n {
		tail, _, terr := st.Read(bg, all[resumeAt].Offset, 0)
		if terr == nil {
			okTail := len(tail) == n-1-resumeAt
			for i := 0; okTail && i < len(tail); i++ {
				okTail = dsSame(tail[i], recs[resumeAt+1+i])
			}
			vAssertK(okTail, "resume-from-event-offset-has-no-gap", "KF-C10-durable-limit-skips", !vmDSStrict)
		}
		vCover("resumed-from-event")
	}
	vmDSStrict = false
	vCover("chain-done")
}

//verif:entry property=C11 tier=both bounds="bus.Replay over the durable-streams store (paged path, real client library, model server optionally cutting responses short, lenient or strict about offsets it did not issue): log length n<=N, replay batch size b in [-1,N+1], optional failing read request; then a second replay resumed from the offset of any delivered event" cover="nil-complete,resumed-from-event-offset" conformance=off N_quick=3 N_thorough=4
func harnessC11DurableReplay() {
	N := vParam("N", 3)
	vmDSChunked = vBool()
	vmDSStrict = vBool()
	st, err := New(vdsServer("c11"), "s", dsOpts()...)
	vAssert(err == nil, "store-opens")
	n := vInt(0, N)
	recs := dsFill(st, n)
	b := vInt(-1, N+1)
	bus := eventbus.New(eventbus.WithStore(st), eventbus.WithReplayBatchSize(b))
	armed := vBool()
	if armed {
		vmDSFailRead = vmDSReads + vInt(0, N)
	}
	// drawn before any read: the model server draws its own choices (where a response is cut) while it
	// answers, and the native replay has no counterpart for those
	second := vBool()
	k := vInt(0, N-1)
	got := 0
	inOrder := true
	var seenOffs []eventbus.Offset
	rerr := bus.Replay(bg, eventbus.OffsetOldest, func(e *eventbus.StoredEvent) error {
		if got < n && !dsSame(e, recs[got]) {
			inOrder = false
		}
		got++
		seenOffs = append(seenOffs, e.Offset)
		return nil
	})
	vmDSFailRead = -1
	if !armed && rerr == nil && got == n && second && k < n {
		// a second replay resumed from the offset one of the delivered events carried: everything behind that
		// event, or an error (the per-event offsets of this store are synthetic; a server that is lenient about
		// offsets it did not issue answers from the end of that chunk - the recorded finding)
		got2, ok2 := 0, true
		rerr2 := bus.Replay(bg, seenOffs[k], func(e *eventbus.StoredEvent) error {
			if k+1+got2 >= n || !dsSame(e, recs[k+1+got2]) {
				ok2 = false
			}
			got2++
			return nil
		})
		vAssertK(ok2, "gap-free-prefix-in-order", "KF-C11-durable-event-offset-resume", !vmDSStrict)
		if rerr2 == nil {
			vAssertK(got2 == n-1-k, "nil-implies-complete", "KF-C11-durable-event-offset-resume", !vmDSStrict)
		}
		vCover("resumed-from-event-offset")
	}
	if !armed {
		vAssert(rerr == nil, "no-fault-no-error")
	}
	vAssert(got <= n, "no-extra-delivery")
	vAssertK(inOrder, "gap-free-prefix-in-order", "KF-C11-durable-limit-skips", b > 0)
	if rerr == nil {
		vAssertK(got == n, "nil-implies-complete", "KF-C11-durable-limit-skips", b > 0)
		vCover("nil-complete")
	}
}

//verif:entry property=C11 tier=both bounds="bus.Replay over the durable-streams store with a longer log (11 or 12 events in one server response, so that the per-event offsets pass a decimal width change), default or large batch size, lenient server, no fault: every event delivered once, in order" cover="long-complete" conformance=off
func harnessC11DurableReplayLong() {
	vmDSChunked, vmDSStrict = false, false
	st, err := New(vdsServer("c11-long"), "s")
	vAssert(err == nil, "store-opens")
	n := 10 + vInt(1, 2)
	recs := make([]dsRec, 0, n)
	for i := 0; i < n; i++ {
		r := dsRec{typ: "t", data: []byte(strconv.Itoa(100 + i)), ts: time.Unix(int64(1000+i), 0).UTC()}
		_, aerr := st.Append(bg, &eventbus.Event{Type: r.typ, Data: r.data, Timestamp: r.ts})
		vAssert(aerr == nil, "append-ok")
		recs = append(recs, r)
	}
	b := 0
	if vBool() {
		b = 100
	}
	bus := eventbus.New(eventbus.WithStore(st), eventbus.WithReplayBatchSize(b))
	got, inOrder := 0, true
	rerr := bus.Replay(bg, eventbus.OffsetOldest, func(e *eventbus.StoredEvent) error {
		if got >= n || !dsSame(e, recs[got]) {
			inOrder = false
		}
		got++
		return nil
	})
	vAssert(rerr == nil, "no-fault-no-error")
	vAssert(inOrder, "gap-free-prefix-in-order")
	vAssert(got == n, "nil-implies-complete")
	vCover("long-complete")
}
