package otel

import (
	"context"
	"errors"
	"sync"
	"time"

	eventbus "github.com/jilio/ebu"
	"go.opentelemetry.io/otel/attribute"
	"go.opentelemetry.io/otel/codes"
	"go.opentelemetry.io/otel/metric"
	mnoop "go.opentelemetry.io/otel/metric/noop"
	"go.opentelemetry.io/otel/trace"
	tnoop "go.opentelemetry.io/otel/trace/noop"
)

// ---- recording providers (SDK-independent; embed the noop implementations)

type recSpan struct {
	tnoop.Span
	rec    *recorder
	id     int
	parent int
	name   string
	ended  int
	status codes.Code
	errs   int
}

func (s *recSpan) End(...trace.SpanEndOption) {
	s.rec.mu.Lock()
	s.ended++
	s.rec.mu.Unlock()
}
func (s *recSpan) SetStatus(c codes.Code, d string) {
	s.rec.mu.Lock()
	s.status = c
	s.rec.mu.Unlock()
}
func (s *recSpan) RecordError(err error, _ ...trace.EventOption) {
	s.rec.mu.Lock()
	s.errs++
	s.rec.mu.Unlock()
}
func (s *recSpan) SetAttributes(...attribute.KeyValue) {}
func (s *recSpan) IsRecording() bool {
	s.rec.mu.Lock()
	defer s.rec.mu.Unlock()
	return s.ended == 0
}

type recorder struct {
	mu       sync.Mutex
	spans    []*recSpan
	counters map[string]int64
	hists    map[string]int
}

type recTracer struct {
	tnoop.Tracer
	rec *recorder
}

func (t recTracer) Start(ctx context.Context, name string, opts ...trace.SpanStartOption) (context.Context, trace.Span) {
	parent := 0
	cfg := trace.NewSpanStartConfig(opts...)
	if p, ok := trace.SpanFromContext(ctx).(*recSpan); ok && !cfg.NewRoot() {
		parent = p.id
	}
	t.rec.mu.Lock()
	s := &recSpan{rec: t.rec, id: len(t.rec.spans) + 1, parent: parent, name: name}
	t.rec.spans = append(t.rec.spans, s)
	t.rec.mu.Unlock()
	return trace.ContextWithSpan(ctx, s), s
}

type recTracerProvider struct {
	tnoop.TracerProvider
	rec *recorder
}

func (p recTracerProvider) Tracer(string, ...trace.TracerOption) trace.Tracer {
	return recTracer{rec: p.rec}
}

type recCounter struct {
	mnoop.Int64Counter
	rec  *recorder
	name string
}

func (c recCounter) Add(_ context.Context, n int64, _ ...metric.AddOption) {
	c.rec.mu.Lock()
	c.rec.counters[c.name] += n
	c.rec.mu.Unlock()
}

type recHist struct {
	mnoop.Float64Histogram
	rec  *recorder
	name string
}

func (h recHist) Record(context.Context, float64, ...metric.RecordOption) {
	h.rec.mu.Lock()
	h.rec.hists[h.name]++
	h.rec.mu.Unlock()
}

type recMeter struct {
	mnoop.Meter
	rec *recorder
}

func (m recMeter) Int64Counter(name string, _ ...metric.Int64CounterOption) (metric.Int64Counter, error) {
	return recCounter{rec: m.rec, name: name}, nil
}
func (m recMeter) Float64Histogram(name string, _ ...metric.Float64HistogramOption) (metric.Float64Histogram, error) {
	return recHist{rec: m.rec, name: name}, nil
}

type recMeterProvider struct {
	mnoop.MeterProvider
	rec *recorder
}

func (p recMeterProvider) Meter(string, ...metric.MeterOption) metric.Meter {
	return recMeter{rec: p.rec}
}

// ---- workload

type evO struct {
	N int `json:"n"`
}

var errStore = errors.New("verif: store rejects")

// cancelShapedErr: a store failure that is also a cancellation (errors.Is says yes to both).
type cancelShapedErr struct{}

func (cancelShapedErr) Error() string   { return "store: gave up: context canceled" }
func (cancelShapedErr) Is(t error) bool { return t == context.Canceled || t == errStore }

type oStore struct {
	inner    *eventbus.MemoryStore
	outcomes []int
	calls    int
	// cancelShaped: failures also wrap context.Canceled (what a store that honours its
	// context returns under a cancelled publish)
	cancelShaped bool
}

func (s *oStore) Append(ctx context.Context, e *eventbus.Event) (eventbus.Offset, error) {
	i := s.calls
	s.calls++
	if i < len(s.outcomes) && s.outcomes[i] == 1 {
		if s.cancelShaped {
			return "", cancelShapedErr{}
		}
		return "", errStore
	}
	return s.inner.Append(ctx, e)
}

func (s *oStore) Read(ctx context.Context, from eventbus.Offset, limit int) ([]*eventbus.StoredEvent, eventbus.Offset, error) {
	return s.inner.Read(ctx, from, limit)
}

//verif:entry property=C20 tier=both bounds="OpenTelemetry implementation (otel/observability.go) over recording tracer/meter providers: n<=N handlers each with arbitrary Once/Async/filter(reject)/panics flags; P publishes each with live or already-cancelled context, one handler may cancel the context of the publish it runs under; persistence absent / succeeding / failing per publish" cover="checked" N_quick=2 N_thorough=3 P_quick=2 P_thorough=2
func harnessC20OTel() {
	N, P := vParam("N", 2), vParam("P", 2)
	rec := &recorder{counters: map[string]int64{}, hists: map[string]int{}}
	obs, err := New(WithTracerProvider(recTracerProvider{rec: rec}), WithMeterProvider(recMeterProvider{rec: rec}))
	vAssert(err == nil && obs != nil, "observability-created")
	opts := []eventbus.Option{eventbus.WithObservability(obs)}
	persist := vBool()
	st := &oStore{inner: eventbus.NewMemoryStore()}
	if persist {
		st.cancelShaped = vBool()
		opts = append(opts, eventbus.WithStore(st))
		if vBool() {
			opts = append(opts, eventbus.WithPersistenceTimeout(time.Second))
		}
	}
	bus := eventbus.New(opts...)
	n := vInt(0, N)
	var mu sync.Mutex
	runs, panicked := 0, 0
	cancelBy := vInt(-1, n-1) // this handler cancels the context of the publish it is running under
	var curCancel context.CancelFunc
	for i := 0; i < n; i++ {
		i := i
		once, async, reject, panics := vBool(), vBool(), vBool(), vBool()
		var so []eventbus.SubscribeOption
		if once {
			so = append(so, eventbus.Once())
		}
		if async {
			so = append(so, eventbus.Async())
		}
		if reject {
			so = append(so, eventbus.WithFilter(func(e evO) bool { return false }))
		}
		eventbus.Subscribe(bus, func(e evO) {
			mu.Lock()
			runs++
			if panics {
				panicked++
			}
			cc := curCancel
			mu.Unlock()
			if i == cancelBy && cc != nil {
				cc()
			}
			if panics {
				panic("boom")
			}
		}, so...)
	}
	attempts, failures := 0, 0
	for p := 0; p < P; p++ {
		ctx, cancel := context.WithCancel(context.Background())
		defer cancel()
		if vBool() {
			cancel()
		}
		mu.Lock()
		curCancel = cancel
		mu.Unlock()
		if persist {
			out := vInt(0, 1)
			st.outcomes = append(st.outcomes, out)
			attempts++
			failures += out
		}
		eventbus.PublishContext(bus, ctx, evO{N: p})
	}
	bus.Wait()

	// every span that was started is ended exactly once
	pubs, hands, pers, errSpans := 0, 0, 0, 0
	isPub := func(id int) bool {
		return id >= 1 && id <= len(rec.spans) && len(rec.spans[id-1].name) >= 17 && rec.spans[id-1].name[:17] == "eventbus.publish:"
	}
	for _, s := range rec.spans {
		vAssert(s.ended == 1, "every-started-span-ended-exactly-once")
		switch {
		case isPub(s.id):
			pubs++
			vAssert(s.parent == 0, "publish-span-is-root")
		case len(s.name) >= 16 && s.name[:16] == "eventbus.handler":
			hands++
			vAssert(isPub(s.parent), "handler-span-is-child-of-publish-span")
			if s.status == codes.Error {
				errSpans++
			}
		default:
			pers++
			vAssert(isPub(s.parent), "persist-span-is-child-of-publish-span")
			if s.status == codes.Error {
				errSpans++
			}
		}
	}
	vAssert(pubs == P && hands == runs && pers == attempts, "one-span-per-publish-handler-run-and-append")
	vAssert(errSpans == panicked+failures, "span-status-error-iff-panic-or-failure")
	// counters equal the true numbers
	vAssert(rec.counters["eventbus.publish.count"] == int64(P), "publish-counter")
	vAssert(rec.counters["eventbus.handler.count"] == int64(runs), "handler-counter")
	vAssert(rec.counters["eventbus.handler.errors"] == int64(panicked), "handler-error-counter")
	vAssert(rec.counters["eventbus.persist.count"] == int64(attempts), "persist-counter-counts-attempts")
	vAssert(rec.counters["eventbus.persist.errors"] == int64(failures), "persist-error-counter")
	vAssert(rec.hists["eventbus.handler.duration"] == runs && rec.hists["eventbus.persist.duration"] == attempts, "durations-recorded-once-each")
	vCover("checked")
}

type c08Key struct{}

//verif:entry property=C08 tier=both bounds="OpenTelemetry observability installed: a context-aware handler (sync or async) that is running when the publish context is cancelled must see the publish context's values (one under a typed key, one under an arbitrary string key) and its cancellation" cover="seen"
func harnessC08OTelContext() {
	rec := &recorder{counters: map[string]int64{}, hists: map[string]int{}}
	obs, err := New(WithTracerProvider(recTracerProvider{rec: rec}), WithMeterProvider(recMeterProvider{rec: rec}))
	vAssert(err == nil, "observability-created")
	bus := eventbus.New(eventbus.WithObservability(obs))
	async := vBool()
	val := vInt(1, 100)
	base, cancel := context.WithCancel(context.Background())
	ctx := context.WithValue(base, c08Key{}, val)
	// a second value under a plain string key of the application's choosing (legacy code does that)
	skey := vStr("ctx-key")
	ctx = context.WithValue(ctx, skey, val+1)
	started, gate := make(chan struct{}), make(chan struct{})
	var mu sync.Mutex
	sawValue, sawCancel, ran := false, false, false
	var so []eventbus.SubscribeOption
	if async {
		so = append(so, eventbus.Async())
	}
	eventbus.SubscribeContext(bus, func(hc context.Context, e evO) {
		if async {
			close(started)
			<-gate
		} else {
			cancel()
		}
		v, ok := hc.Value(c08Key{}).(int)
		v2, ok2 := hc.Value(skey).(int)
		mu.Lock()
		ran = true
		sawValue = ok && v == val && ok2 && v2 == val+1
		sawCancel = hc.Err() != nil
		select {
		case <-hc.Done():
		default:
			sawCancel = false
		}
		mu.Unlock()
	}, so...)
	eventbus.PublishContext(bus, ctx, evO{N: 1})
	if async {
		<-started
		cancel()
		close(gate)
	}
	bus.Wait()
	mu.Lock()
	vAssert(ran, "handler-ran")
	vAssert(sawValue, "context-aware-handler-sees-publish-context-values")
	vAssert(sawCancel, "context-aware-handler-sees-publish-context-cancellation")
	mu.Unlock()
	vCover("seen")
}
