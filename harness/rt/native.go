package PKG

// Harness runtime, native replay: values come from the solver's model.

import (
	"context"
	"encoding/json"
	"fmt"
	"reflect"
	"runtime"
	"strconv"
	"sync"
	"sync/atomic"
	"testing"
	"time"
)

var (
	vrtMu     sync.Mutex
	vrtVec    []string
	vrtPos    int
	vrtParams map[string]int64
	vrtFailed atomic.Bool
	vrtStepN  atomic.Int64
	vrtWG     sync.WaitGroup
)

type vrtStop struct{ label string }

func vrtNext(kind string) string {
	vrtMu.Lock()
	defer vrtMu.Unlock()
	if vrtPos >= len(vrtVec) {
		// inputs the counterexample path never created: any value will do
		vrtPos++
		switch kind {
		case "bool":
			return "false"
		case "str":
			return "\"\""
		case "doc":
			return "null"
		}
		return "0"
	}
	s := vrtVec[vrtPos]
	vrtPos++
	return s
}

func vBool() bool { return vrtNext("bool") == "true" }

func vInt(lo, hi int) int {
	s := vrtNext("int")
	n, err := strconv.ParseInt(s, 10, 64)
	if err != nil {
		n = int64(lo)
	}
	if int(n) < lo || int(n) > hi {
		// off the recorded path
		return lo
	}
	return int(n)
}

func vPick(n int) int     { return vInt(0, n-1) }
func vConcrete(x int) int { return x }

func vStr(tag string) string {
	s := vrtNext("str")
	u, err := strconv.Unquote(s)
	if err != nil {
		return s
	}
	return u
}

func vNameBytes(prefix string, n int) string {
	b := []byte(prefix)
	for i := 0; i < n; i++ {
		v, _ := strconv.ParseInt(vrtNext("int"), 10, 64)
		b = append(b, byte(v))
	}
	return string(b)
}

// vDoc: the engine renders the arbitrary document of the counterexample as JSON text.
func vDoc(tag string) []byte { return []byte(vrtNext("doc")) }

func vDocWithout(tag string, absent string) []byte { return vDoc(tag) }

func vTime(tag string) time.Time {
	ns, _ := strconv.ParseInt(vrtNext("int"), 10, 64)
	zone := vrtNext("bool") == "true"
	t := time.Unix(0, ns)
	if zone {
		return t.In(time.FixedZone("Zone1", 3600))
	}
	return t.UTC()
}

func vSymbolicTypeName(zero any, n int) {
	for i := 0; i < n; i++ {
		vrtNext("int")
	}
}

// vAssume is a no-op natively: the solver's model satisfies every assumption
// of the counterexample path by construction.
func vAssume(c bool) {}

func vRank(s string) int { return 0 }

func vAssert(c bool, label string) {
	if !c {
		vrtFailed.Store(true)
		fmt.Printf("VERIF-ASSERT-FAILED label=%s\n", label)
		panic(vrtStop{label})
	}
}

func vAssertK(c bool, label, knownID string, region bool) { vAssert(c, label) }
func vCover(label string)                                   {}
func vObserve(tag string, vals ...any)                      { fmt.Println(append([]any{"VERIF-OBS", tag}, vals...)...) }
func vYield()                                               { runtime.Gosched() }
func vStep() int                                            { return int(vrtStepN.Add(1)) }
func vJoinAll()                                             { vrtWG.Wait() }
func vSymbolic() bool                                       { return false }
func vGoID() int                                            { return 0 }
func vFuncID(f any) uintptr                                 { return reflect.ValueOf(f).Pointer() }

func vParam(name string, def int) int {
	if v, ok := vrtParams[name]; ok {
		return int(v)
	}
	return def
}

// vrtRun executes one harness entry under the recorded input vector.
func vrtRun(t *testing.T, vecJSON, paramsJSON string, entry func()) {
	json.Unmarshal([]byte(vecJSON), &vrtVec)
	json.Unmarshal([]byte(paramsJSON), &vrtParams)
	done := make(chan any, 1)
	go func() {
		defer func() {
			r := recover()
			if _, ok := r.(vrtStop); ok {
				r = nil
			}
			if r != nil {
				fmt.Printf("VERIF-PANIC %v\n", r)
			}
			done <- r
		}()
		entry()
	}()
	select {
	case r := <-done:
		if r != nil {
			t.Fatalf("panic: %v", r)
		}
	case <-time.After(20 * time.Second):
		fmt.Println("VERIF-TIMEOUT")
		t.Fatalf("harness did not finish")
	}
	if vrtFailed.Load() {
		t.Fatalf("assertion failed")
	}
}

// vmCtxExpire is a no-op natively (the harness store returns the deadline error itself).
func vmCtxExpire(ctx context.Context) {}
