package PKG

// Harness runtime, native replay: values come from the solver's model.

import (
	"context"
	"encoding/json"
	"fmt"
	"os"
	"reflect"
	"runtime"
	"strconv"
	"sync"
	"sync/atomic"
	"testing"
	"time"
)

var (
	vrtMu     sync.Mutex
	vrtVec    []string
	vrtPos    int
	vrtParams map[string]int64
	vrtFailed atomic.Bool
	vrtStepN  atomic.Int64
	vrtWG     sync.WaitGroup
)

type vrtStop struct{ label string }

func vrtNext(kind string) string {
	vrtMu.Lock()
	defer vrtMu.Unlock()
	if vrtPos >= len(vrtVec) {
		// inputs the counterexample path never created: any value will do
		vrtPos++
		switch kind {
		case "bool":
			return "false"
		case "str":
			return "\"\""
		case "doc":
			return "null"
		}
		return "0"
	}
	s := vrtVec[vrtPos]
	vrtPos++
	return s
}

func vBool() bool { return vrtNext("bool") == "true" }

func vInt(lo, hi int) int {
	s := vrtNext("int")
	n, err := strconv.ParseInt(s, 10, 64)
	if err != nil {
		n = int64(lo)
	}
	if int(n) < lo || int(n) > hi {
		// off the recorded path
		return lo
	}
	return int(n)
}

func vPick(n int) int     { return vInt(0, n-1) }
func vConcrete(x int) int { return x }

func vStr(tag string) string {
	s := vrtNext("str")
	u, err := strconv.Unquote(s)
	if err != nil {
		return s
	}
	return u
}

func vNameBytes(prefix string, n int) string {
	b := []byte(prefix)
	for i := 0; i < n; i++ {
		v, _ := strconv.ParseInt(vrtNext("int"), 10, 64)
		b = append(b, byte(v))
	}
	return string(b)
}

// vDoc: the engine renders the arbitrary document of the counterexample as JSON text.
func vDoc(tag string) []byte { return []byte(vrtNext("doc")) }

func vDocWithout(tag string, absent string) []byte { return vDoc(tag) }

func vTime(tag string) time.Time {
	ns, _ := strconv.ParseInt(vrtNext("int"), 10, 64)
	zone := vrtNext("bool") == "true"
	t := time.Unix(0, ns)
	if zone {
		return t.In(time.FixedZone("Zone1", 3600))
	}
	return t.UTC()
}

func vSymbolicTypeName(zero any, n int) {
	for i := 0; i < n; i++ {
		vrtNext("int")
	}
}

// vAssume is a no-op natively: the solver's model satisfies every assumption
// of the counterexample path by construction.
func vAssume(c bool) {}

func vRank(s string) int {
	r := len(s) * 1000
	for i := 0; i < len(s); i++ {
		r += int(s[i])
	}
	return r
}

var vrtTraceOn = os.Getenv("GOSX_TRACE") != ""

func vrtTrace(s string) {
	if vrtTraceOn {
		fmt.Println("VERIF-TRACE " + s)
	}
}

func vAssert(c bool, label string) {
	if c {
		vrtTrace("A:" + label + ":ok")
	} else {
		vrtTrace("A:" + label + ":FAIL")
	}
	if !c {
		vrtFailed.Store(true)
		fmt.Printf("VERIF-ASSERT-FAILED label=%s\n", label)
		panic(vrtStop{label})
	}
}

func vAssertK(c bool, label, knownID string, region bool) {
	if vrtTraceOn && !c && region {
		// conformance runs: a recorded known finding does not end the run
		vrtTrace("A:" + label + ":FAIL")
		return
	}
	vAssert(c, label)
}
func vCover(label string) {}
func vObserve(tag string, vals ...any) {
	if !vrtTraceOn {
		return
	}
	s := "O:" + tag
	for _, v := range vals {
		switch x := v.(type) {
		case int, int64, int32, uint, uint64, uint32, uint8, bool:
			s += fmt.Sprint(" ", x)
		case string:
			s += " " + x
		default:
			rv := reflect.ValueOf(v)
			switch rv.Kind() {
			case reflect.String:
				s += " " + rv.String()
			case reflect.Int, reflect.Int64, reflect.Int32:
				s += fmt.Sprint(" ", rv.Int())
			default:
				s += " ?"
			}
		}
	}
	vrtTrace(s)
}
func vYield() {
	if vs.on {
		vsBefore()
		vsAfter()
		return
	}
	runtime.Gosched()
}
func vStep() int { return int(vrtStepN.Add(1)) }
func vJoinAll() {
	vsHandoff()
	vrtWG.Wait()
	vsAfter()
}
func vSymbolic() bool       { return false }
func vGoID() int            { return 0 }
func vFuncID(f any) uintptr { return reflect.ValueOf(f).Pointer() }

func vParam(name string, def int) int {
	if v, ok := vrtParams[name]; ok {
		return int(v)
	}
	return def
}

// vrtRun executes one harness entry under the recorded input vector.
func vrtRun(t *testing.T, vecJSON, paramsJSON, schedJSON string, entry func()) {
	json.Unmarshal([]byte(vecJSON), &vrtVec)
	json.Unmarshal([]byte(paramsJSON), &vrtParams)
	vsInit(schedJSON)
	done := make(chan any, 1)
	go func() {
		vsRegister(0)
		defer func() {
			vsRelease()
			r := recover()
			if _, ok := r.(vrtStop); ok {
				r = nil
			}
			if r != nil {
				fmt.Printf("VERIF-PANIC %v\n", r)
			}
			done <- r
		}()
		entry()
	}()
	select {
	case r := <-done:
		if r != nil {
			t.Fatalf("panic: %v", r)
		}
	case <-time.After(20 * time.Second):
		fmt.Println("VERIF-TIMEOUT")
		t.Fatalf("harness did not finish")
	}
	if vrtFailed.Load() {
		t.Fatalf("assertion failed")
	}
}

// vmCtxExpire: natively the deadline is real - wait until it has passed (contexts without a deadline: no-op,
// as in the model).
func vmCtxExpire(ctx context.Context) {
	if _, ok := ctx.Deadline(); ok {
		<-ctx.Done()
	}
}

// ---- schedule-forcing runtime for concurrent counterexamples (DESIGN A.7).
// The instrumented replay build calls vsBefore()/vsAfter() around every
// synchronisation operation and vsGo() for every go statement; goroutines are
// admitted in the order of the recorded token transfers.

type vsXfer struct {
	G int    `json:"g"`
	P int    `json:"p"`
	K string `json:"k"`
	N int    `json:"n"`
}

var vsTrace = os.Getenv("GOSX_POINT_TRACE") != ""
var vsBlockMode = os.Getenv("GOSX_REPLAY_MODE") == "block"

// vsHandedOff: did the calling goroutine give the token away at its current point?
func vsHandedOff() bool {
	vs.mu.Lock()
	defer vs.mu.Unlock()
	g, ok := vsSelfLocked()
	return ok && vs.on && vs.owner != g
}

var vs struct {
	mu     sync.Mutex
	cond   *sync.Cond
	on     bool
	owner  int
	log    []vsXfer
	pos    int
	points map[int]int
	ids    map[int64]int
	nextID int
}

func vsInit(schedJSON string) {
	vs.cond = sync.NewCond(&vs.mu)
	vs.points = map[int]int{}
	vs.ids = map[int64]int{}
	vs.nextID = 1
	if schedJSON == "" || schedJSON == "null" || os.Getenv("GOSX_REPLAY_MODE") == "free" {
		// "free": run the counterexample's inputs without the recorded schedule
		// (used under -race: the token hand-offs of a scheduled replay are
		// themselves happens-before edges and would hide a real data race)
		return
	}
	json.Unmarshal([]byte(schedJSON), &vs.log)
	vs.on = true
	// periodic wake-ups so that waiters can notice divergence / release
	go func() {
		for {
			time.Sleep(20 * time.Millisecond)
			vs.mu.Lock()
			on := vs.on
			vs.cond.Broadcast()
			vs.mu.Unlock()
			if !on {
				return
			}
		}
	}()
}

func vsGID() int64 {
	var buf [64]byte
	n := runtime.Stack(buf[:], false)
	// "goroutine 123 ["
	var id int64
	for _, c := range buf[10:n] {
		if c < '0' || c > '9' {
			break
		}
		id = id*10 + int64(c-'0')
	}
	return id
}

func vsRegister(id int) {
	vs.mu.Lock()
	vs.ids[vsGID()] = id
	vs.mu.Unlock()
}

func vsSelfLocked() (int, bool) {
	id, ok := vs.ids[vsGID()]
	return id, ok
}

// vsWaitOwnerLocked blocks until g holds the token (or the schedule is released).
func vsWaitOwnerLocked(g int) {
	start := time.Now()
	for vs.on && vs.owner != g {
		vs.cond.Wait()
		if time.Since(start) > 8*time.Second && vs.on {
			fmt.Println("VERIF-SCHED-DIVERGED waiting goroutine", g, "owner", vs.owner, "pos", vs.pos, "of", len(vs.log))
			vs.on = false
			vs.cond.Broadcast()
		}
	}
}

func vsConsumeLocked(g int, inBefore bool) {
	p := vs.points[g]
	for vs.on && vs.pos < len(vs.log) && vs.log[vs.pos].G == g && vs.log[vs.pos].P == p && vs.log[vs.pos].K != "exit" {
		x := vs.log[vs.pos]
		vs.pos++
		vs.owner = x.N
		vs.cond.Broadcast()
		if x.K == "preempt" && inBefore {
			vsWaitOwnerLocked(g)
			continue
		}
		return // block / exit: go on without the token
	}
}

func vsBefore() {
	if !vs.on {
		return
	}
	vs.mu.Lock()
	defer vs.mu.Unlock()
	g, ok := vsSelfLocked()
	if !ok {
		return
	}
	vsWaitOwnerLocked(g)
	vs.points[g]++
	if vsTrace {
		_, file, line, _ := runtime.Caller(2)
		fmt.Printf("VS g%d p%d %s:%d\n", g, vs.points[g], file, line)
	}
	vsConsumeLocked(g, true)
}

func vsAfter() {
	if !vs.on {
		return
	}
	vs.mu.Lock()
	defer vs.mu.Unlock()
	g, ok := vsSelfLocked()
	if !ok {
		return
	}
	vsWaitOwnerLocked(g)
}

// vsAcquire performs a lock acquisition under the recorded schedule: the
// goroutine passes its point (possibly handing the token away where the
// symbolic run blocked), waits until the schedule gives it the token back and
// then takes the lock with TryLock; nothing blocks inside the real primitive.
func vsAcquire(try func() bool, real func()) {
	if !vs.on {
		real()
		return
	}
	vsBefore()
	if vsBlockMode && vsHandedOff() {
		// second replay mode: where the symbolic run blocked, block in the real
		// primitive (so that e.g. a waiting writer really holds back new readers)
		real()
		vsAfter()
		return
	}
	for i := 0; i < 2000; i++ {
		vsAfter()
		if !vs.on || try() {
			if !vs.on {
				real()
			}
			return
		}
		// the lock is still held natively although the schedule says we run:
		// give the holder (who does not need the token to finish unlocking) a moment
		time.Sleep(50 * time.Microsecond)
	}
	fmt.Println("VERIF-SCHED-DIVERGED lock not available")
	vsRelease()
	real()
}

// vsHandoff performs recorded block transfers at the current point without
// passing a new point (used by vJoinAll).
func vsHandoff() {
	if !vs.on {
		return
	}
	vs.mu.Lock()
	defer vs.mu.Unlock()
	g, ok := vsSelfLocked()
	if !ok {
		return
	}
	vsConsumeLocked(g, false)
}

func vsGo(f func()) {
	vrtWG.Add(1)
	if !vs.on {
		go func() {
			defer vrtWG.Done()
			f()
		}()
		return
	}
	vs.mu.Lock()
	id := vs.nextID
	vs.nextID++
	vs.mu.Unlock()
	started := make(chan struct{})
	go func() {
		defer vrtWG.Done()
		vsRegister(id)
		close(started)
		vsAfter()
		defer vsExit()
		f()
	}()
	<-started
	vsBefore()
	vsAfter()
}

func vsExit() {
	if !vs.on {
		return
	}
	vs.mu.Lock()
	defer vs.mu.Unlock()
	g, ok := vsSelfLocked()
	if !ok {
		return
	}
	p := vs.points[g]
	if vs.pos < len(vs.log) && vs.log[vs.pos].G == g && vs.log[vs.pos].P == p && vs.log[vs.pos].K == "exit" {
		vs.owner = vs.log[vs.pos].N
		vs.pos++
		vs.cond.Broadcast()
		return
	}
	if vs.owner == g {
		// beyond the recorded schedule: let everybody run
		vs.on = false
		vs.cond.Broadcast()
	}
}

func vsRelease() {
	vs.mu.Lock()
	vs.on = false
	if vs.cond != nil {
		vs.cond.Broadcast()
	}
	vs.mu.Unlock()
}
