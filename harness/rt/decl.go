package PKG

// Harness runtime, symbolic mode: declarations only; gosx intercepts them.

import "time"

func vBool() bool
func vInt(lo, hi int) int
func vPick(n int) int
func vConcrete(x int) int
func vStr(tag string) string
func vNameBytes(prefix string, n int) string
func vDoc(tag string) []byte
func vTime(tag string) time.Time
func vSymbolicTypeName(zero any, n int)
func vAssume(c bool)
func vAssert(c bool, label string)
func vAssertK(c bool, label, knownID string, region bool)
func vCover(label string)
func vObserve(tag string, vals ...any)
func vYield()
func vStep() int
func vJoinAll()
func vSymbolic() bool
func vParam(name string, def int) int
func vGoID() int
func vFuncID(f any) uintptr
func vRank(s string) int
func vDocWithout(tag string, absent string) []byte
func vSQLKind(q string) (int, int, bool, int)
func vUnsupported(msg string)

// vJSONUnmarshalUseNumber is json.Unmarshal with Decoder.UseNumber semantics (models only).
func vJSONUnmarshalUseNumber(data []byte, v any) error
