package state

import (
	"encoding/json"
	"sync"

	eventbus "github.com/jilio/ebu"
)

//verif:entry property=C03 tier=both bounds="every pair of concurrent operations out of {Materializer.Apply(insert), Apply(reset), TypedCollection.Get, All, LastOffset, RegisterCollection} on one materializer" cover="pair-done" preempt_quick=2 preempt_thorough=3 race=on
func harnessC03MaterializerPairs() {
	m := NewMaterializer()
	coll := NewTypedCollection[entA](NewMemoryStore[entA]())
	RegisterCollection(m, coll)
	ins, _ := Insert("k", entA{V: 1})
	insData, _ := json.Marshal(ins)
	rstData, _ := json.Marshal(Reset(""))
	ops := []func(){
		func() { m.Apply(&eventbus.StoredEvent{Offset: "1", Data: insData}) },
		func() { m.Apply(&eventbus.StoredEvent{Offset: "2", Data: rstData}) },
		func() { coll.Get("k") },
		func() { coll.All() },
		func() { m.LastOffset() },
		func() { RegisterCollection(m, NewTypedCollection[entB](NewMemoryStore[entB]())) },
	}
	a, b := vPick(len(ops)), vPick(len(ops))
	var wg sync.WaitGroup
	wg.Add(2)
	go func() {
		defer wg.Done()
		ops[a]()
	}()
	go func() {
		defer wg.Done()
		ops[b]()
	}()
	wg.Wait()
	vJoinAll()
	vCover("pair-done")
}
