package state

import (
	"context"

	eventbus "github.com/jilio/ebu"
)

type entA struct {
	V   int    `json:"v"`
	Tag string `json:"tag,omitempty"`
}

type entB struct {
	V int `json:"v"`
}

type entNested struct {
	Name  string `json:"name"`
	Count int    `json:"count"`
	On    bool   `json:"on"`
	Inner struct {
		X int    `json:"x"`
		Y string `json:"y,omitempty"`
	} `json:"inner"`
}

// entUnreg is never registered with a materializer.
type entUnreg struct {
	V int `json:"v"`
}

func newBus() (*eventbus.EventBus, *eventbus.MemoryStore) {
	st := eventbus.NewMemoryStore()
	return eventbus.New(eventbus.WithStore(st)), st
}

var bg = context.Background()
