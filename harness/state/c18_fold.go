package state

import (
	"time"

	eventbus "github.com/jilio/ebu"
)

type c18Op struct {
	kind    int // 0 insert 1 update 2 delete 3 reset 4 snapshot-start 5 snapshot-end 6 change for an unregistered type
	typ     int // 0 entA, 1 entB
	key     string
	val     int
	tag     string // optional field of entA (omitted from the message when empty)
	sameOld bool   // update built by UpdateWithOldValue with old == new
	ts      int    // > 0: the message carries this header timestamp (seconds); timestamps need not increase along the log
	wrapped bool   // published inside an application envelope type that embeds the message and has its own event type name
}

// c18Envelope is an application event that embeds a state-protocol message: it is stored under the
// application's type name and serialises to the message's fields.
type c18Envelope struct {
	*ChangeMessage
}

func (c18Envelope) EventTypeName() string { return "app.entity-changed" }

func c18Publish(bus *eventbus.EventBus, o c18Op) {
	msg, ctrl := c18Build(o)
	if ctrl != nil {
		eventbus.Publish(bus, *ctrl)
		return
	}
	if o.wrapped {
		eventbus.Publish(bus, c18Envelope{msg})
		return
	}
	eventbus.Publish(bus, *msg)
}

// c18Build builds the protocol message of one operation with the helper constructors.
func c18Build(o c18Op) (*ChangeMessage, *ControlMessage) {
	var msg *ChangeMessage
	var err error
	var opts []ChangeOption
	if o.ts > 0 {
		opts = append(opts, WithTimestamp(time.Unix(int64(o.ts), 0)))
	}
	switch o.kind {
	case 0:
		if o.typ == 0 {
			msg, err = Insert(o.key, entA{V: o.val, Tag: o.tag}, opts...)
		} else {
			msg, err = Insert(o.key, entB{V: o.val})
		}
	case 1:
		if o.typ == 0 && o.sameOld {
			// an update that carries an old value equal to the new one is an update all the same
			msg, err = UpdateWithOldValue(o.key, entA{V: o.val, Tag: o.tag}, entA{V: o.val, Tag: o.tag})
		} else if o.typ == 0 {
			msg, err = Update(o.key, entA{V: o.val, Tag: o.tag}, opts...)
		} else {
			msg, err = Update(o.key, entB{V: o.val})
		}
	case 2:
		if o.typ == 0 {
			msg, err = Delete[entA](o.key, opts...)
		} else {
			msg, err = Delete[entB](o.key)
		}
	case 3:
		return nil, Reset("")
	case 4:
		return nil, SnapshotStart("s")
	case 5:
		return nil, SnapshotEnd("s")
	case 6:
		msg, err = Insert(o.key, entUnreg{V: o.val})
	}
	vAssert(err == nil && msg != nil, "helper-ok")
	return msg, nil
}

// c18Want folds ops[:upto] for (typ, probe): the last write not followed by a delete or reset.
func c18Want(ops []c18Op, upto, typ int, probe string) (int, bool) {
	v, _, ok := c18WantTag(ops, upto, typ, probe)
	return v, ok
}

func c18WantTag(ops []c18Op, upto, typ int, probe string) (int, string, bool) {
	val, tag, ok := 0, "", false
	for i := 0; i < upto; i++ {
		o := ops[i]
		switch o.kind {
		case 0, 1:
			if o.typ == typ && o.key == probe {
				val, tag, ok = o.val, o.tag, true
			}
		case 2:
			if o.typ == typ && o.key == probe {
				val, tag, ok = 0, "", false
			}
		case 3:
			val, tag, ok = 0, "", false
		}
	}
	return val, tag, ok
}

// c18Live counts live keys of typ after ops[:upto].
func c18Live(ops []c18Op, upto, typ int) int {
	n := 0
	for i := 0; i < upto; i++ {
		o := ops[i]
		if (o.kind != 0 && o.kind != 1) || o.typ != typ {
			continue
		}
		// is i the last write of its key, not deleted/reset afterwards?
		last := true
		for j := i + 1; j < upto; j++ {
			p := ops[j]
			if p.kind == 3 {
				last = false
			}
			if p.typ == typ && p.key == o.key && (p.kind == 0 || p.kind == 1 || p.kind == 2) {
				last = false
			}
		}
		if last {
			n++
		}
	}
	return n
}

type c18Mat struct {
	m      *Materializer
	a      *TypedCollection[entA]
	b      *TypedCollection[entB]
	resets int
	snaps  int
}

func c18New(strict bool) *c18Mat {
	x := &c18Mat{}
	opts := []MaterializerOption{WithOnReset(func() { x.resets++ }), WithOnSnapshot(func(bool) { x.snaps++ })}
	if strict {
		opts = append(opts, WithStrictSchema())
	}
	x.m = NewMaterializer(opts...)
	x.a = NewTypedCollection[entA](NewMemoryStore[entA]())
	x.b = NewTypedCollection[entB](NewMemoryStore[entB]())
	RegisterCollection(x.m, x.a)
	RegisterCollection(x.m, x.b)
	return x
}

func (x *c18Mat) check(ops []c18Op, upto int, probe string, wantOff eventbus.Offset, label string) {
	va, oka := x.a.Get(probe)
	wa, wtag, woka := c18WantTag(ops, upto, 0, probe)
	vAssert(oka == woka && (!oka || (va.V == wa && va.Tag == wtag)), label+"-collection-A-is-fold")
	vb, okb := x.b.Get(probe)
	wb, wokb := c18Want(ops, upto, 1, probe)
	vAssert(okb == wokb && (!okb || vb.V == wb), label+"-collection-B-is-fold")
	vAssert(len(x.a.All()) == c18Live(ops, upto, 0), label+"-size-A")
	vAssert(len(x.b.All()) == c18Live(ops, upto, 1), label+"-size-B")
	vAssert(x.m.LastOffset() == wantOff, label+"-last-offset")
}

//verif:entry property=C18 tier=both bounds="M messages (M_quick=2,M_thorough=3), each insert/update/delete/reset/snapshot-start/snapshot-end/change for an unregistered type over 2 entity types with arbitrary (SMT string) keys and symbolic values; strict or not; split into two replay sessions at any point; state compared through a universally quantified probe key" cover="one-session,two-sessions,strict-stop" M_quick=2 M_thorough=3
func harnessC18Fold() { c18Fold(vParam("M", 3), false) }

//verif:entry property=C18 tier=both bounds="longer logs over a smaller alphabet: M messages (M_quick=3,M_thorough=4), each insert/update/delete of one of two fixed keys (one contains the separator) of one entity type with a symbolic value (optionally all carrying header timestamps that decrease along the log, optionally all published inside an application envelope type with its own event type name), or a control message (per log: reset, snapshot-start or snapshot-end); non-strict; split into two replay sessions at any point; same fold oracle" cover="one-session,two-sessions" M_quick=3 M_thorough=4
func harnessC18FoldFocused() { c18Fold(vParam("M", 3), true) }

func c18Fold(M int, focused bool) {
	strict := !focused && vBool()
	bus, st := newBus()
	ops := make([]c18Op, M)
	// log-level variations of the focused entry: every change message carries a header timestamp and these
	// decrease along the log; every change message travels inside an application envelope type
	ctl := 3 // what the control message of the focused alphabet is in this log: reset, snapshot-start or snapshot-end
	if focused {
		ctl = 3 + vPick(3)
	}
	tsDown := focused && ctl == 3 && vBool()
	wrapAll := focused && ctl == 3 && vBool()
	for i := range ops {
		if focused {
			o := c18Op{kind: vInt(0, 3)}
			if o.kind == 3 {
				o.kind = ctl
			}
			if o.kind <= 2 {
				o.key = []string{"k1", "a/b"}[vPick(2)]
				o.val = vInt(-9, 9)
			}
			if o.kind == 1 {
				o.sameOld = vBool()
			}
			if o.kind <= 2 {
				if tsDown {
					o.ts = M - i // header timestamps that decrease along the log
				}
				o.wrapped = wrapAll
			}
			ops[i] = o
			continue
		}
		o := c18Op{kind: vInt(0, 6)}
		if o.kind <= 2 || o.kind == 6 {
			o.typ = vInt(0, 1)
			o.key = vStr("key")
			vAssume(o.key != "")
			o.val = vInt(-9, 9)
			if o.typ == 0 && vBool() {
				o.tag = vStr("tag")
			}
		}
		ops[i] = o
	}
	split := vInt(0, M)
	// in strict mode the first change for an unregistered type stops the replay
	stop := M
	if strict {
		for i := M - 1; i >= 0; i-- {
			if ops[i].kind == 6 {
				stop = i
			}
		}
	}
	two := c18New(strict)
	for i := 0; i < split; i++ {
		c18Publish(bus, ops[i])
	}
	err1 := two.m.Replay(bg, bus, eventbus.OffsetOldest)
	vAssert((err1 != nil) == (stop < split), "strict-error-iff-unregistered")
	// the state is looked at between the sessions as well
	upto1 := split
	if stop < upto1 {
		upto1 = stop
	}
	vAssert(len(two.a.All()) == c18Live(ops, upto1, 0) && len(two.b.All()) == c18Live(ops, upto1, 1), "first-session-size")
	for i := split; i < M; i++ {
		c18Publish(bus, ops[i])
	}
	err2 := two.m.Replay(bg, bus, two.m.LastOffset())
	vAssert((err2 != nil) == (stop < M), "strict-error-iff-unregistered")

	one := c18New(strict)
	err := one.m.Replay(bg, bus, eventbus.OffsetOldest)
	vAssert((err != nil) == (stop < M), "strict-error-iff-unregistered")

	evs, _, _ := st.Read(bg, eventbus.OffsetOldest, 0)
	vAssert(len(evs) == M, "all-persisted")
	wantOff := eventbus.OffsetOldest
	if stop > 0 {
		wantOff = evs[stop-1].Offset
	}
	probe := vStr("probe")
	one.check(ops, stop, probe, wantOff, "one-session")
	two.check(ops, stop, probe, wantOff, "two-sessions")
	// callbacks
	resets, snaps := 0, 0
	for i := 0; i < stop; i++ {
		if ops[i].kind == 3 {
			resets++
		}
		if ops[i].kind == 4 || ops[i].kind == 5 {
			snaps++
		}
	}
	if focused {
		// the same messages handed to the materializer directly (no event, no offset)
		direct := c18New(false)
		for i := 0; i < M; i++ {
			msg, ctrl := c18Build(ops[i])
			if ctrl != nil {
				direct.m.ApplyControlMessage(ctrl)
			} else {
				vAssert(direct.m.ApplyChangeMessage(msg) == nil, "direct-apply-ok")
			}
		}
		direct.check(ops, M, probe, eventbus.OffsetOldest, "direct")
	}
	vAssert(one.resets == resets && one.snaps == snaps, "callbacks-once-per-control-message")
	vAssert(two.resets == resets && two.snaps == snaps, "two-sessions-apply-each-message-once")
	vCover("one-session")
	vCover("two-sessions")
	if stop < M {
		vCover("strict-stop")
	}
}
