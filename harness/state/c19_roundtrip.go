package state

import (
	"encoding/json"

	eventbus "github.com/jilio/ebu"
)

func c19Has(m map[string]json.RawMessage, k string) bool {
	_, ok := m[k]
	return ok
}

//verif:entry property=C19 tier=both bounds="every change helper (Insert/Update/UpdateWithOldValue/Delete/DeleteWithOldValue) x every subset of options (txid, explicit/auto timestamp, entity type override) x arbitrary key/txid strings x nested entity with symbolic leaves; publish -> store -> replay -> Apply" cover="set-op,delete-op"
func harnessC19ChangeRoundTrip() {
	helper := vInt(0, 4)
	key := vStr("key")
	vAssume(key != "")
	ent := entNested{Name: vStr("name"), Count: vInt(-1000, 1000), On: vBool()}
	ent.Inner.X = vInt(-5, 5)
	ent.Inner.Y = vStr("y")
	old := entNested{Name: vStr("oldname"), Count: vInt(-3, 3), On: vBool()}
	old.Inner.X = vInt(-5, 5)
	old.Inner.Y = vStr("oldy")

	var opts []ChangeOption
	withTx, withTS, withAuto, withType := vBool(), vBool(), vBool(), vBool()
	tx := vStr("txid")
	typeName := EntityType(entNested{})
	if withTx {
		opts = append(opts, WithTxID(tx))
	}
	if withTS {
		opts = append(opts, WithTimestamp(vTime("ts")))
	}
	if withAuto {
		opts = append(opts, WithAutoTimestamp())
	}
	if withType {
		override := vStr("entity-type")
		opts = append(opts, WithEntityType(override))
		if override != "" {
			typeName = override // an empty override leaves the name derived from the Go type in place
		}
	}
	var msg *ChangeMessage
	var err error
	switch helper {
	case 0:
		msg, err = Insert(key, ent, opts...)
	case 1:
		msg, err = Update(key, ent, opts...)
	case 2:
		msg, err = UpdateWithOldValue(key, ent, old, opts...)
	case 3:
		msg, err = Delete[entNested](key, opts...)
	case 4:
		msg, err = DeleteWithOldValue(key, old, opts...)
	}
	vAssert(err == nil && msg != nil, "helper-ok")

	bus, st := newBus()
	// an earlier value under the same key makes deletes and updates observable
	pre, _ := Insert(key, old, WithEntityType(typeName))
	eventbus.Publish(bus, *pre)
	eventbus.Publish(bus, *msg)

	evs, _, _ := st.Read(bg, eventbus.OffsetOldest, 0)
	vAssert(len(evs) == 2, "persisted")
	vAssert(evs[1].Type == "state.ChangeMessage", "event-type-name")
	// state-protocol field names
	var top map[string]json.RawMessage
	vAssert(json.Unmarshal(evs[1].Data, &top) == nil, "stored-is-object")
	isSet := helper <= 2
	hasOld := helper == 2 || helper == 4
	vAssert(c19Has(top, "type") && c19Has(top, "key") && c19Has(top, "headers"), "protocol-fields-present")
	vAssert(c19Has(top, "value") == isSet, "value-field-iff-set")
	vAssert(c19Has(top, "old_value") == hasOld, "old_value-field-iff-given")
	want := 3
	if isSet {
		want++
	}
	if hasOld {
		want++
	}
	vAssert(len(top) == want, "no-other-top-level-fields")
	var hdr map[string]json.RawMessage
	vAssert(json.Unmarshal(top["headers"], &hdr) == nil, "headers-is-object")
	vAssert(c19Has(hdr, "operation"), "operation-field")
	vAssert(c19Has(hdr, "txid") == (withTx && tx != ""), "txid-field-iff-set")
	vAssert(c19Has(hdr, "timestamp") == (withTS || withAuto), "timestamp-field-iff-set")
	var opName Operation
	vAssert(json.Unmarshal(hdr["operation"], &opName) == nil, "operation-decodes")
	wantOp := OperationInsert
	if helper == 1 || helper == 2 {
		wantOp = OperationUpdate
	}
	if helper >= 3 {
		wantOp = OperationDelete
	}
	vAssert(opName == wantOp, "operation-name")

	// through replay into a materializer
	m := NewMaterializer()
	coll := NewTypedCollectionWithType[entNested](NewMemoryStore[entNested](), typeName)
	RegisterCollection(m, coll)
	vAssert(m.Replay(bg, bus, eventbus.OffsetOldest) == nil, "replay-ok")
	got, ok := coll.Get(key)
	if isSet {
		vAssert(ok && got == ent, "materialized-entity-equals-original")
		vCover("set-op")
	} else {
		vAssert(!ok, "materialized-delete-removes")
		vCover("delete-op")
	}
	vAssert(m.LastOffset() == evs[1].Offset, "last-offset")
}

//verif:entry property=C19 tier=both bounds="control helpers SnapshotStart/SnapshotEnd/Reset with arbitrary offset string through publish -> store -> replay -> Apply" cover="control"
func harnessC19ControlRoundTrip() {
	which := vInt(0, 2)
	off := vStr("offset")
	var msg *ControlMessage
	switch which {
	case 0:
		msg = SnapshotStart(off)
	case 1:
		msg = SnapshotEnd(off)
	default:
		msg = Reset(off)
	}
	bus, st := newBus()
	pre, _ := Insert("k", entA{V: 1})
	eventbus.Publish(bus, *pre)
	eventbus.Publish(bus, *msg)
	evs, _, _ := st.Read(bg, eventbus.OffsetOldest, 0)
	vAssert(len(evs) == 2 && evs[1].Type == "state.ControlMessage", "persisted-with-type-name")
	var top map[string]json.RawMessage
	vAssert(json.Unmarshal(evs[1].Data, &top) == nil && len(top) == 1 && c19Has(top, "headers"), "control-has-only-headers")
	var hdr map[string]json.RawMessage
	vAssert(json.Unmarshal(top["headers"], &hdr) == nil, "headers-is-object")
	vAssert(c19Has(hdr, "control") && c19Has(hdr, "offset") == (off != ""), "control-header-fields")
	resets, starts, ends := 0, 0, 0
	m := NewMaterializer(WithOnReset(func() { resets++ }), WithOnSnapshot(func(s bool) {
		if s {
			starts++
		} else {
			ends++
		}
	}))
	coll := NewTypedCollection[entA](NewMemoryStore[entA]())
	RegisterCollection(m, coll)
	vAssert(m.Replay(bg, bus, eventbus.OffsetOldest) == nil, "replay-ok")
	_, ok := coll.Get("k")
	vAssert(starts == b2i(which == 0) && ends == b2i(which == 1) && resets == b2i(which == 2), "control-reaches-materializer")
	vAssert(ok == (which != 2), "reset-clears-snapshot-markers-do-not")
	vCover("control")
}

func b2i(b bool) int {
	if b {
		return 1
	}
	return 0
}

//verif:entry property=C19 tier=quick bounds="Apply on an arbitrary document (not JSON at all, or an arbitrary JSON tree: arbitrary kinds, members present or absent, arbitrary strings and numbers; members old_value, txid, timestamp assumed absent in the quick tier) against a materializer holding one entity; strict or not" cover="rejected,applied" forbid=panic,deadlock,race
func harnessC19ArbitraryBytesQuick() { c19Arbitrary(vDocWithout("data", "old_value,txid,timestamp")) }

//verif:entry property=C19 tier=thorough bounds="Apply on an arbitrary document (not JSON at all, or an arbitrary JSON tree: arbitrary kinds, every protocol member present or absent, arbitrary strings and numbers) against a materializer holding one entity; strict or not" cover="rejected,applied" forbid=panic,deadlock,race
func harnessC19ArbitraryBytes() { c19Arbitrary(vDoc("data")) }

func c19Arbitrary(data []byte) {
	strict := vBool()
	var opts []MaterializerOption
	errs := 0
	opts = append(opts, WithOnError(func(error) { errs++ }))
	if strict {
		opts = append(opts, WithStrictSchema())
	}
	m := NewMaterializer(opts...)
	coll := NewTypedCollection[entA](NewMemoryStore[entA]())
	RegisterCollection(m, coll)
	pre, _ := Insert("k", entA{V: 7})
	preData, _ := json.Marshal(pre)
	vAssert(m.Apply(&eventbus.StoredEvent{Offset: "1", Type: "state.ChangeMessage", Data: preData}) == nil, "pre-apply-ok")

	probe := vStr("probe")
	before, beforeOK := coll.Get(probe)
	sizeBefore := len(coll.All())

	err := m.Apply(&eventbus.StoredEvent{Offset: "2", Type: vStr("type"), Data: data})
	if err != nil {
		after, afterOK := coll.Get(probe)
		vAssert(afterOK == beforeOK && after == before, "rejected-leaves-collection-unchanged")
		vAssert(len(coll.All()) == sizeBefore, "rejected-leaves-size-unchanged")
		vAssert(m.LastOffset() == "1", "rejected-leaves-last-offset-unchanged")
		vCover("rejected")
	} else {
		vAssert(m.LastOffset() == "2", "applied-advances-last-offset")
		// state may change only because of a well-formed message: a reset control
		// message whose headers decode cleanly, or a change message for the registered type
		after, afterOK := coll.Get(probe)
		if afterOK != beforeOK || after != before || len(coll.All()) != sizeBefore {
			var raw struct {
				Headers json.RawMessage `json:"headers"`
			}
			wellFormedReset := false
			if json.Unmarshal(data, &raw) == nil {
				var ch ControlHeaders
				if json.Unmarshal(raw.Headers, &ch) == nil && ch.Control == ControlReset {
					wellFormedReset = true
				}
			}
			var cm ChangeMessage
			wellFormedChange := json.Unmarshal(data, &cm) == nil && cm.Type == EntityType(entA{})
			vAssert(wellFormedReset || wellFormedChange, "state-changes-only-for-well-formed-messages")
		}
		vCover("applied")
	}
}

type entMap map[string]int

//verif:entry property=C19 tier=both bounds="entities whose JSON encoding is null (nil pointer, nil map) through Insert/Update -> publish -> store -> replay -> Apply" cover="null-value"
func harnessC19NullValue() {
	bus, _ := newBus()
	update := vBool()
	var m1, m2 *ChangeMessage
	var e1, e2 error
	if update {
		m1, e1 = Update("p", (*entA)(nil))
		m2, e2 = Update("m", entMap(nil))
	} else {
		m1, e1 = Insert("p", (*entA)(nil))
		m2, e2 = Insert("m", entMap(nil))
	}
	vAssert(e1 == nil && e2 == nil && m1 != nil && m2 != nil, "helper-ok")
	eventbus.Publish(bus, *m1)
	eventbus.Publish(bus, *m2)
	m := NewMaterializer()
	cp := NewTypedCollection[*entA](NewMemoryStore[*entA]())
	cm := NewTypedCollection[entMap](NewMemoryStore[entMap]())
	RegisterCollection(m, cp)
	RegisterCollection(m, cm)
	vAssert(m.Replay(bg, bus, eventbus.OffsetOldest) == nil, "replay-ok")
	vp, okp := cp.Get("p")
	vm, okm := cm.Get("m")
	vAssert(okp && vp == nil, "null-pointer-entity-materialized")
	vAssert(okm && vm == nil, "null-map-entity-materialized")
	vCover("null-value")
}

//verif:entry property=C19 tier=both bounds="helpers instantiated with an interface-typed entity (T = any) and a collection of that type: insert / update (with or without old value) / delete of arbitrary (SMT string) keys and string values through publish -> store -> replay -> Apply; every helper names the entity type the same way, so the collection holds exactly what was written" cover="any-typed"
func harnessC19InterfaceTypedEntity() {
	bus, _ := newBus()
	k1, k2 := vStr("key1"), vStr("key2")
	vAssume(k1 != "" && k2 != "" && k1 != k2)
	v1, v2 := vStr("value1"), vStr("value2")
	ins, err := Insert[any](k1, v1)
	vAssert(err == nil, "helper-ok")
	eventbus.Publish(bus, *ins)
	ins2, err := Insert[any](k2, v1)
	vAssert(err == nil, "helper-ok")
	eventbus.Publish(bus, *ins2)
	var upd *ChangeMessage
	if vBool() {
		upd, err = Update[any](k1, v2)
	} else {
		upd, err = UpdateWithOldValue[any](k1, v2, v1)
	}
	vAssert(err == nil, "helper-ok")
	vAssert(upd.Type == ins.Type, "helpers-agree-on-entity-type")
	eventbus.Publish(bus, *upd)
	del, err := Delete[any](k2)
	vAssert(err == nil, "helper-ok")
	vAssert(del.Type == ins.Type, "helpers-agree-on-entity-type")
	eventbus.Publish(bus, *del)

	m := NewMaterializer()
	coll := NewTypedCollection[any](NewMemoryStore[any]())
	RegisterCollection(m, coll)
	vAssert(m.Replay(bg, bus, eventbus.OffsetOldest) == nil, "replay-ok")
	got, ok := coll.Get(k1)
	gs, isStr := got.(string)
	vAssert(ok && isStr && gs == v2, "materialized-entity-equals-original")
	_, ok2 := coll.Get(k2)
	vAssert(!ok2, "materialized-delete-removes")
	vAssert(len(coll.All()) == 1, "materialized-entity-equals-original")
	vCover("any-typed")
}
