package state

import (
	eventbus "github.com/jilio/ebu"
)

type c15Migrated struct {
	Key string `json:"key"`
}

// c15StateCheck: publish msg on a persistent bus; the stored name is EventType(msg); on fresh buses over
// the same store the typed replay subscription and a typed upcaster for T find the record.
func c15StateCheck[T any](msg T) {
	bus, st := newBus()
	eventbus.Publish(bus, msg)
	evs, _, _ := st.Read(bg, eventbus.OffsetOldest, 0)
	vAssert(len(evs) == 1, "persisted")
	vAssert(evs[0].Type == eventbus.EventType(msg), "stored-type-is-EventType")
	vObserve("stored-type-name", evs[0].Type)

	bus2 := eventbus.New(eventbus.WithStore(st))
	got := 0
	vAssert(eventbus.SubscribeWithReplay(bg, bus2, "sub", func(x T) { got++ }) == nil, "subscribe-ok")
	vAssert(got == 1, "typed-replay-subscription-matches-stored-name")

	bus3 := eventbus.New(eventbus.WithStore(st))
	vAssert(eventbus.RegisterUpcast(bus3, func(x T) c15Migrated { return c15Migrated{Key: "k"} }) == nil, "register-ok")
	seen := 0
	rerr := bus3.ReplayWithUpcast(bg, eventbus.OffsetOldest, func(se *eventbus.StoredEvent) error {
		if se.Type == eventbus.EventType(c15Migrated{}) {
			seen++
		}
		return nil
	})
	vAssert(rerr == nil && seen == 1, "typed-upcast-source-matches-stored-name")
	vCover("checked")
}

//verif:entry property=C15 tier=both bounds="the state package's own messages as event types: a change message (built by a helper, arbitrary SMT-string key) and a control message, each published by value or by pointer" cover="checked"
func harnessC15StateMessages() {
	key := vStr("key")
	vAssume(key != "")
	switch vPick(4) {
	case 0:
		msg, err := Insert(key, entA{V: vInt(-3, 3)})
		vAssert(err == nil, "helper-ok")
		c15StateCheck(*msg)
	case 1:
		msg, err := Insert(key, entA{V: vInt(-3, 3)})
		vAssert(err == nil, "helper-ok")
		c15StateCheck(msg)
	case 2:
		c15StateCheck(*Reset("o"))
	case 3:
		c15StateCheck(SnapshotStart("o"))
	}
}
