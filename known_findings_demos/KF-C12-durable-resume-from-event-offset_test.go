package durablestream_test

import (
	"context"
	"net/http"
	"net/http/httptest"
	"testing"

	dsl "github.com/ahimsalabs/durable-streams-go/durablestream"
	"github.com/ahimsalabs/durable-streams-go/durablestream/memorystorage"
	eventbus "github.com/jilio/ebu"
	ds "github.com/jilio/ebu/stores/durablestream"
)

type kf2Ev struct{ N int }

// kf2Subs: subscription offsets; after the process "died" nothing is written any more.
type kf2Subs struct {
	inner *eventbus.MemoryStore
	saves int
	dieAt int
	dead  bool
}

func (s *kf2Subs) SaveOffset(ctx context.Context, id string, o eventbus.Offset) error {
	if s.dead {
		return nil
	}
	err := s.inner.SaveOffset(ctx, id, o)
	s.saves++
	if s.saves == s.dieAt {
		s.dead = true
	}
	return err
}
func (s *kf2Subs) LoadOffset(ctx context.Context, id string) (eventbus.Offset, error) {
	return s.inner.LoadOffset(ctx, id)
}

func TestKFDurableResumeAfterDeathMidReplay(t *testing.T) {
	handler := dsl.NewHandler(memorystorage.New(), nil)
	mux := http.NewServeMux()
	mux.Handle("/v1/stream/", http.StripPrefix("/v1/stream/", handler))
	srv := httptest.NewServer(mux)
	defer srv.Close()
	st, err := ds.New(srv.URL+"/v1/stream", "s")
	if err != nil {
		t.Fatal(err)
	}
	writer := eventbus.New(eventbus.WithStore(st))
	for i := 1; i <= 3; i++ {
		eventbus.Publish(writer, kf2Ev{N: i})
	}
	subs := &kf2Subs{inner: eventbus.NewMemoryStore(), dieAt: 1}
	counts := map[int]int{}
	run := func() error {
		bus := eventbus.New(eventbus.WithStore(st), eventbus.WithSubscriptionStore(subs))
		return eventbus.SubscribeWithReplay(context.Background(), bus, "sub", func(e kf2Ev) {
			if !subs.dead {
				counts[e.N]++
			}
		})
	}
	if err := run(); err != nil {
		t.Fatal(err)
	}
	saved, _ := subs.inner.LoadOffset(context.Background(), "sub")
	t.Logf("process died after saving %q; delivered so far %v", saved, counts)
	subs.dead, subs.dieAt = false, -1
	if err := run(); err != nil {
		t.Logf("restart: SubscribeWithReplay reports %v", err)
		return
	}
	t.Logf("after the restart: %v", counts)
	for i := 1; i <= 3; i++ {
		if counts[i] == 0 {
			t.Errorf("event %d was never delivered although the restarted subscription reported success", i)
		}
	}
}
