package durablestream_test

import (
	"context"
	"net/http"
	"net/http/httptest"
	"testing"

	dsl "github.com/ahimsalabs/durable-streams-go/durablestream"
	"github.com/ahimsalabs/durable-streams-go/durablestream/memorystorage"
	eventbus "github.com/jilio/ebu"
	ds "github.com/jilio/ebu/stores/durablestream"
)

type kfEv struct{ N int }

func TestKFResumeFromEventOffset(t *testing.T) {
	handler := dsl.NewHandler(memorystorage.New(), nil)
	mux := http.NewServeMux()
	mux.Handle("/v1/stream/", http.StripPrefix("/v1/stream/", handler))
	srv := httptest.NewServer(mux)
	defer srv.Close()
	st, err := ds.New(srv.URL+"/v1/stream", "s")
	if err != nil {
		t.Fatal(err)
	}
	bus := eventbus.New(eventbus.WithStore(st))
	for i := 0; i < 3; i++ {
		eventbus.Publish(bus, kfEv{N: i})
	}
	var offs []eventbus.Offset
	if err := bus.Replay(context.Background(), eventbus.OffsetOldest, func(e *eventbus.StoredEvent) error { offs = append(offs, e.Offset); return nil }); err != nil {
		t.Fatal(err)
	}
	t.Logf("offsets %q", offs)
	got := 0
	err = bus.Replay(context.Background(), offs[0], func(e *eventbus.StoredEvent) error { got++; return nil })
	t.Logf("resume from %q: err=%v delivered=%d (want 2 or an error)", offs[0], err, got)
	if err == nil && got != 2 {
		t.Fatalf("Replay returned nil after delivering %d of 2 events", got)
	}
}
